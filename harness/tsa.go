package main

// An in-process RFC 3161 time-stamping authority: it answers tspclient's HTTP timestamper through a
// scripted http.RoundTripper (no sockets), minting real CMS SignedData tokens over real TSA
// certificate chains. Every deviation a behaviour names perturbs exactly one thing.

import (
	"bytes"
	"context"
	"crypto"
	"crypto/ecdsa"
	"crypto/rand"
	"crypto/rsa"
	"crypto/sha256"
	"crypto/sha512"
	"crypto/x509"
	"crypto/x509/pkix"
	"encoding/asn1"
	"errors"
	"fmt"
	"io"
	"math/big"
	"net/http"
	"strings"
	"sync"
	"time"

	"github.com/notaryproject/notation-core-go/revocation"
	"github.com/notaryproject/notation-core-go/revocation/result"
	"github.com/notaryproject/tspclient-go"
	"github.com/notaryproject/tspclient-go/pki"
)

var (
	oidSignedData    = asn1.ObjectIdentifier{1, 2, 840, 113549, 1, 7, 2}
	oidData          = asn1.ObjectIdentifier{1, 2, 840, 113549, 1, 7, 1}
	oidTSTInfo       = asn1.ObjectIdentifier{1, 2, 840, 113549, 1, 9, 16, 1, 4}
	oidAttrCType     = asn1.ObjectIdentifier{1, 2, 840, 113549, 1, 9, 3}
	oidAttrDigest    = asn1.ObjectIdentifier{1, 2, 840, 113549, 1, 9, 4}
	oidAttrSignTime  = asn1.ObjectIdentifier{1, 2, 840, 113549, 1, 9, 5}
	oidAttrSignCerV2 = asn1.ObjectIdentifier{1, 2, 840, 113549, 1, 9, 16, 2, 47}
	oidSHA256        = asn1.ObjectIdentifier{2, 16, 840, 1, 101, 3, 4, 2, 1}
	oidSHA384        = asn1.ObjectIdentifier{2, 16, 840, 1, 101, 3, 4, 2, 2}
	oidSHA512        = asn1.ObjectIdentifier{2, 16, 840, 1, 101, 3, 4, 2, 3}
	oidECDSASHA256   = asn1.ObjectIdentifier{1, 2, 840, 10045, 4, 3, 2}
	oidRSASHA256     = asn1.ObjectIdentifier{1, 2, 840, 113549, 1, 1, 11}
	oidTSAPolicy     = asn1.ObjectIdentifier{1, 3, 6, 1, 4, 1, 99999, 1}
)

type cmsContentInfo struct {
	ContentType asn1.ObjectIdentifier
	Content     asn1.RawValue
}
type cmsEncap struct {
	ContentType asn1.ObjectIdentifier
	Content     []byte `asn1:"explicit,optional,tag:0"`
}
type cmsIssuerSerial struct {
	Issuer asn1.RawValue
	Serial *big.Int
}
type cmsSignerInfo struct {
	Version            int
	SID                cmsIssuerSerial
	DigestAlgorithm    pkix.AlgorithmIdentifier
	SignedAttrs        asn1.RawValue `asn1:"optional"`
	SignatureAlgorithm pkix.AlgorithmIdentifier
	Signature          []byte
}
type cmsSignedData struct {
	Version          int
	DigestAlgorithms []pkix.AlgorithmIdentifier `asn1:"set"`
	Encap            cmsEncap
	Certificates     asn1.RawValue   `asn1:"optional"`
	SignerInfos      []cmsSignerInfo `asn1:"set"`
}
type cmsAttribute struct {
	Type   asn1.ObjectIdentifier
	Values asn1.RawValue
}
type essCertIDv2 struct{ CertHash []byte }
type essSigningCertV2 struct{ Certificates []essCertIDv2 }

func attrOf(oid asn1.ObjectIdentifier, inner []byte) cmsAttribute {
	return cmsAttribute{Type: oid, Values: asn1.RawValue{Class: 0, Tag: 17, IsCompound: true, Bytes: inner}}
}

// tokenOpts: what the authority puts into a token (zero value = a correct token)
type tokenOpts struct {
	imprint        tspclient.MessageImprint
	nonce          *big.Int
	genTime        time.Time
	tstVersion     int
	includeCerts   bool
	signKey        crypto.Signer // key that makes the CMS signature (normally the TSA leaf's)
	badSignature   bool
	badDigestAttr  bool
	badCertHash    bool
	eContentType   asn1.ObjectIdentifier
	signingTime    *time.Time // optional signed attribute
	noSigningCert  bool
	extraBadSigner bool // a first SignerInfo that does not verify, before the good one
}

func signCMS(key crypto.Signer, msg []byte) ([]byte, asn1.ObjectIdentifier) {
	h := sha256.Sum256(msg)
	switch k := key.(type) {
	case *ecdsa.PrivateKey:
		s, err := ecdsa.SignASN1(rand.Reader, k, h[:])
		if err != nil {
			panic(err)
		}
		return s, oidECDSASHA256
	case *rsa.PrivateKey:
		s, err := rsa.SignPKCS1v15(rand.Reader, k, crypto.SHA256, h[:])
		if err != nil {
			panic(err)
		}
		return s, oidRSASHA256
	}
	panic("tsa key type")
}

// mintToken builds the DER of a TimeStampToken (ContentInfo{SignedData}) over chain (leaf first).
func mintToken(chain []*x509.Certificate, o tokenOpts) []byte {
	info := tspclient.TSTInfo{
		Version:        o.tstVersion,
		Policy:         oidTSAPolicy,
		MessageImprint: o.imprint,
		SerialNumber:   nextSerial(),
		GenTime:        o.genTime.UTC(),
		Accuracy:       tspclient.Accuracy{Seconds: 1},
		Nonce:          o.nonce,
	}
	content := mustMarshal(info)
	leaf := chain[0]
	signer := func(bad bool) cmsSignerInfo {
		dg := sha256.Sum256(content)
		digest := dg[:]
		if o.badDigestAttr {
			digest = append([]byte{}, digest...)
			digest[0] ^= 1
		}
		ch := sha256.Sum256(leaf.Raw)
		certHash := ch[:]
		if o.badCertHash {
			certHash = append([]byte{}, certHash...)
			certHash[0] ^= 1
		}
		attrs := []cmsAttribute{
			attrOf(oidAttrCType, mustMarshal(o.eContentType)),
			attrOf(oidAttrDigest, mustMarshal(digest)),
		}
		if !o.noSigningCert {
			attrs = append(attrs, attrOf(oidAttrSignCerV2, mustMarshal(essSigningCertV2{Certificates: []essCertIDv2{{CertHash: certHash}}})))
		}
		if o.signingTime != nil {
			tb, err := asn1.MarshalWithParams(o.signingTime.UTC(), "utc")
			if err != nil {
				panic(err)
			}
			attrs = append(attrs, attrOf(oidAttrSignTime, tb))
		}
		set, err := asn1.MarshalWithParams(attrs, "set")
		if err != nil {
			panic(err)
		}
		sig, sigOID := signCMS(o.signKey, set)
		if o.badSignature || bad {
			sig = append([]byte{}, sig...)
			sig[len(sig)-3] ^= 0x10
		}
		// [0] IMPLICIT: same content, context tag
		var parsed asn1.RawValue
		if _, err := asn1.Unmarshal(set, &parsed); err != nil {
			panic(err)
		}
		return cmsSignerInfo{
			Version:            1,
			SID:                cmsIssuerSerial{Issuer: asn1.RawValue{FullBytes: leaf.RawIssuer}, Serial: leaf.SerialNumber},
			DigestAlgorithm:    pkix.AlgorithmIdentifier{Algorithm: oidSHA256},
			SignedAttrs:        asn1.RawValue{Class: 2, Tag: 0, IsCompound: true, Bytes: parsed.Bytes},
			SignatureAlgorithm: pkix.AlgorithmIdentifier{Algorithm: sigOID},
			Signature:          sig,
		}
	}
	sd := cmsSignedData{
		Version:          3,
		DigestAlgorithms: []pkix.AlgorithmIdentifier{{Algorithm: oidSHA256}},
		Encap:            cmsEncap{ContentType: o.eContentType, Content: content},
	}
	if o.includeCerts {
		var all []byte
		for _, c := range chain {
			all = append(all, c.Raw...)
		}
		sd.Certificates = asn1.RawValue{Class: 2, Tag: 0, IsCompound: true, Bytes: all}
	}
	if o.extraBadSigner {
		sd.SignerInfos = append(sd.SignerInfos, signer(true))
	}
	sd.SignerInfos = append(sd.SignerInfos, signer(false))
	inner := mustMarshal(sd)
	return mustMarshal(cmsContentInfo{ContentType: oidSignedData, Content: asn1.RawValue{Class: 2, Tag: 0, IsCompound: true, Bytes: inner}})
}

// ---------------------------------------------------------------------------------------------
// the authority

type tsaAuthority struct {
	mu        sync.Mutex
	behaviour string
	chain     []*x509.Certificate
	leafKey   crypto.Signer
	// observations
	httpCalls int
	requests  []*tspclient.Request
	served    [][]byte // token bytes served (nil entry: none)
}

type roundTripFunc func(*http.Request) (*http.Response, error)

func (f roundTripFunc) RoundTrip(r *http.Request) (*http.Response, error) { return f(r) }

func httpReply(req *http.Request, code int, ctype string, body []byte) *http.Response {
	return &http.Response{StatusCode: code, Status: fmt.Sprintf("%d %s", code, http.StatusText(code)), Proto: "HTTP/1.1", ProtoMajor: 1, ProtoMinor: 1,
		Header: http.Header{"Content-Type": []string{ctype}}, Body: io.NopCloser(bytes.NewReader(body)), ContentLength: int64(len(body)), Request: req}
}

var tsaBehaviours = []string{
	"good", "good-with-mods", "good-signing-time-attr", "good-second-signer-verifies",
	"rejected", "waiting", "granted-no-token", "rejected-with-token",
	"wrong-imprint", "wrong-imprint-hash-alg", "imprint-of-payload", "wrong-nonce", "no-nonce", "no-certs",
	"garbage", "empty-body", "truncated", "http-500", "http-404", "wrong-content-type", "transport-error", "oversized",
	"bad-cms-signature", "signed-by-other-key", "bad-message-digest", "bad-cert-hash", "no-signing-cert-attr",
	"econtent-id-data", "tst-version-2", "signing-time-attr-outside-validity", "not-signed-data",
	"gentime-inside-leaf-validity", "gentime-inside-leaf-validity-with-signing-time-attr", "gentime-a-year-ago", "gentime-in-a-year",
}

// otherData: what a lying authority stamps instead
var otherData = []byte("something else entirely")

func hashByOID(oid asn1.ObjectIdentifier, msg []byte) []byte {
	switch {
	case oid.Equal(oidSHA256):
		h := sha256.Sum256(msg)
		return h[:]
	case oid.Equal(oidSHA384):
		h := sha512.Sum384(msg)
		return h[:]
	case oid.Equal(oidSHA512):
		h := sha512.Sum512(msg)
		return h[:]
	}
	return nil
}

func (a *tsaAuthority) respond(tsReq *tspclient.Request, payload []byte) (status pki.Status, token []byte) {
	o := tokenOpts{imprint: tsReq.MessageImprint, nonce: tsReq.Nonce, genTime: time.Now(), tstVersion: 1, includeCerts: tsReq.CertReq,
		signKey: a.leafKey, eContentType: oidTSTInfo}
	status = pki.StatusGranted
	alg := tsReq.MessageImprint.HashAlgorithm.Algorithm
	switch a.behaviour {
	case "good-with-mods":
		status = pki.StatusGrantedWithMods
	case "good-signing-time-attr":
		t := time.Now()
		o.signingTime = &t
	case "good-second-signer-verifies":
		o.extraBadSigner = true
	case "rejected":
		return pki.StatusRejection, nil
	case "waiting":
		return pki.StatusWaiting, nil
	case "granted-no-token":
		return pki.StatusGranted, nil
	case "rejected-with-token":
		status = pki.StatusRejection
	case "wrong-imprint":
		o.imprint.HashedMessage = hashByOID(alg, otherData)
	case "wrong-imprint-hash-alg":
		other := oidSHA512
		if alg.Equal(oidSHA512) {
			other = oidSHA256
		}
		o.imprint.HashAlgorithm.Algorithm = other
		// the digest under the other hash cannot be of the right message (the authority never sees it): any digest of that length
		o.imprint.HashedMessage = hashByOID(other, otherData)
	case "imprint-of-payload":
		o.imprint.HashedMessage = hashByOID(alg, payload)
	case "wrong-nonce":
		o.nonce = new(big.Int).Add(tsReq.Nonce, big.NewInt(1))
	case "no-nonce":
		o.nonce = nil
	case "no-certs":
		o.includeCerts = false
	case "bad-cms-signature":
		o.badSignature = true
	case "signed-by-other-key":
		o.signKey = getKey("ec256-97").Priv
	case "bad-message-digest":
		o.badDigestAttr = true
	case "bad-cert-hash":
		o.badCertHash = true
	case "no-signing-cert-attr":
		o.noSigningCert = true
	case "econtent-id-data":
		o.eContentType = oidData
	case "tst-version-2":
		o.tstVersion = 2
	case "gentime-inside-leaf-validity", "gentime-inside-leaf-validity-with-signing-time-attr":
		// an authority whose certificate is outside its validity now dates the token into the validity period
		leaf := a.chain[0]
		now := time.Now()
		switch {
		case now.After(leaf.NotAfter):
			o.genTime = leaf.NotAfter.Add(-30 * time.Minute)
		case now.Before(leaf.NotBefore):
			o.genTime = leaf.NotBefore.Add(30 * time.Minute)
		}
		if strings.HasSuffix(a.behaviour, "attr") {
			t := o.genTime
			o.signingTime = &t
		}
	case "gentime-a-year-ago":
		o.genTime = time.Now().AddDate(-1, 0, 0)
	case "gentime-in-a-year":
		o.genTime = time.Now().AddDate(1, 0, 0)
	case "signing-time-attr-outside-validity":
		t := a.chain[0].NotAfter.Add(48 * time.Hour)
		o.signingTime = &t
	}
	return status, mintToken(a.chain, o)
}

func (a *tsaAuthority) transport(payload []byte) http.RoundTripper {
	return roundTripFunc(func(req *http.Request) (*http.Response, error) {
		a.mu.Lock()
		defer a.mu.Unlock()
		a.httpCalls++
		body, _ := io.ReadAll(req.Body)
		var tsReq tspclient.Request
		if err := tsReq.UnmarshalBinary(body); err != nil {
			return httpReply(req, 400, "text/plain", []byte("bad request")), nil
		}
		a.requests = append(a.requests, &tsReq)
		ok := func(b []byte) (*http.Response, error) {
			return httpReply(req, 200, tspclient.MediaTypeTimestampReply, b), nil
		}
		switch a.behaviour {
		case "garbage":
			a.served = append(a.served, nil)
			return ok([]byte("\x30\x03\x02\x01this is not a timestamp response"))
		case "empty-body":
			a.served = append(a.served, nil)
			return ok(nil)
		case "http-500":
			a.served = append(a.served, nil)
			return httpReply(req, 500, tspclient.MediaTypeTimestampReply, nil), nil
		case "http-404":
			a.served = append(a.served, nil)
			return httpReply(req, 404, "text/html", []byte("<html>")), nil
		case "transport-error":
			a.served = append(a.served, nil)
			return nil, errors.New("scripted transport failure")
		case "oversized":
			a.served = append(a.served, nil)
			return ok(make([]byte, 1<<20+16))
		case "not-signed-data":
			a.served = append(a.served, nil)
			tok := mustMarshal(cmsContentInfo{ContentType: oidData, Content: asn1.RawValue{Class: 2, Tag: 0, IsCompound: true, Bytes: mustMarshal([]byte("x"))}})
			return ok(mustMarshal(tspclient.Response{Status: pki.StatusInfo{Status: pki.StatusGranted}, TimestampToken: asn1.RawValue{FullBytes: tok}}))
		}
		status, tok := a.respond(&tsReq, payload)
		a.served = append(a.served, tok)
		resp := tspclient.Response{Status: pki.StatusInfo{Status: status}}
		if tok != nil {
			resp.TimestampToken = asn1.RawValue{FullBytes: tok}
		}
		der := mustMarshal(resp)
		switch a.behaviour {
		case "truncated":
			return ok(der[:len(der)/2])
		case "wrong-content-type":
			return httpReply(req, 200, "application/octet-stream", der), nil
		}
		return ok(der)
	})
}

// ---------------------------------------------------------------------------------------------
// recording decorators: what the library asked of, and got from, the caller's components

type recTimestamper struct {
	inner tspclient.Timestamper
	mu    sync.Mutex
	calls int
	reqs  []*tspclient.Request
	resps []*tspclient.Response
	errs  []error
}

func (t *recTimestamper) Timestamp(ctx context.Context, req *tspclient.Request) (*tspclient.Response, error) {
	resp, err := t.inner.Timestamp(ctx, req)
	t.mu.Lock()
	t.calls++
	t.reqs = append(t.reqs, req)
	t.resps = append(t.resps, resp)
	t.errs = append(t.errs, err)
	t.mu.Unlock()
	return resp, err
}

// customTimestamper: a caller-written Timestamper (no HTTP, none of tspclient's response validation)
type customTimestamper struct {
	fn func(req *tspclient.Request) (*tspclient.Response, error)
}

func (c *customTimestamper) Timestamp(ctx context.Context, req *tspclient.Request) (*tspclient.Response, error) {
	return c.fn(req)
}

type scriptedValidator struct {
	mu      sync.Mutex
	calls   int
	chains  [][]*x509.Certificate
	err     error
	results []result.Result
	nilRows bool
}

func (v *scriptedValidator) Validate(certChain []*x509.Certificate, _ *http.Client) ([]*result.CertRevocationResult, error) {
	return v.ValidateContext(context.Background(), revocation.ValidateContextOptions{CertChain: certChain})
}

func (v *scriptedValidator) ValidateContext(ctx context.Context, o revocation.ValidateContextOptions) ([]*result.CertRevocationResult, error) {
	v.mu.Lock()
	defer v.mu.Unlock()
	v.calls++
	v.chains = append(v.chains, o.CertChain)
	if v.err != nil {
		return nil, v.err
	}
	out := make([]*result.CertRevocationResult, len(v.results))
	for i, r := range v.results {
		out[i] = &result.CertRevocationResult{Result: r}
	}
	return out, nil
}

// ---------------------------------------------------------------------------------------------
// TSA identities

type tsaIdentity struct {
	chain []*x509.Certificate
	key   crypto.Signer
}

var (
	tsaMu   sync.Mutex
	tsaPool = map[string]*tsaIdentity{}
)

var tsaChainMuts = []string{"", "leaf-eku-noncritical", "leaf-eku-plus-codesigning", "leaf-ku-keyencipherment", "leaf-no-ku", "leaf-is-ca",
	"leaf-rsa1024", "leaf-ec224", "leaf-rsa2048", "ca-no-ku", "ca-ku-without-certsign", "leaf-expired", "leaf-not-yet-valid", "leaf-eku-any",
	"leaf-ku-contentcommitment", "inter-pathlen-0-above-inter", "root-expired", "root-not-yet-valid", "all-expired",
	"leaf-empty-subject", "ca-empty-subject", "root-empty-subject", "all-empty-subject"}

// getTSA returns a TSA chain of n certificates (leaf first) with the named defect.
func getTSA(n int, mut string) *tsaIdentity {
	k := fmt.Sprintf("%d/%s", n, mut)
	tsaMu.Lock()
	defer tsaMu.Unlock()
	if id, ok := tsaPool[k]; ok {
		return id
	}
	specs := validSpecs(n, "ts", "ec256-80", func(i int) string { return fmt.Sprintf("ec256-%d", 80+i) })
	for i, s := range specs {
		s.CN = fmt.Sprintf("tsa-%s-%d-%d", mut, n, i)
	}
	leaf := specs[0]
	if n == 1 {
		// a self-signed TSA certificate trusted directly
		leaf.SelfSign = true
	}
	switch mut {
	case "leaf-eku-noncritical":
		leaf.EKUCritical = false
	case "leaf-eku-plus-codesigning":
		leaf.EKU = append(leaf.EKU, x509.ExtKeyUsageCodeSigning)
	case "leaf-eku-any":
		leaf.EKU = []x509.ExtKeyUsage{x509.ExtKeyUsageAny}
	case "leaf-ku-keyencipherment":
		leaf.KU |= x509.KeyUsageKeyEncipherment
	case "leaf-ku-contentcommitment":
		leaf.KU |= x509.KeyUsageContentCommitment
	case "leaf-no-ku":
		leaf.KUPresent = false
	case "leaf-is-ca":
		leaf.BC, leaf.IsCA, leaf.MaxPathLen = true, true, -1
	case "leaf-rsa1024":
		leaf.KeyID = "rsa1024-0"
	case "leaf-rsa2048":
		leaf.KeyID = "rsa2048-1"
	case "leaf-ec224":
		leaf.KeyID = "ec224-0"
	case "ca-no-ku":
		if n > 1 {
			specs[1].KUPresent = false
		}
	case "ca-ku-without-certsign":
		if n > 1 {
			specs[1].KU = x509.KeyUsageCRLSign
		}
	case "leaf-expired":
		leaf.NotAfter = baseTime().Add(-time.Hour)
	case "leaf-not-yet-valid":
		leaf.NotBefore = baseTime().Add(time.Hour)
	case "root-expired":
		specs[n-1].NotAfter = baseTime().Add(-time.Hour)
	case "root-not-yet-valid":
		specs[n-1].NotBefore = baseTime().Add(time.Hour)
	case "all-expired":
		for _, sp := range specs {
			sp.NotAfter = baseTime().Add(-time.Hour)
		}
	case "leaf-empty-subject":
		leaf.EmptySubject = true
	case "ca-empty-subject":
		if n > 1 {
			specs[1].EmptySubject = true
		}
	case "root-empty-subject":
		specs[n-1].EmptySubject = true
	case "all-empty-subject":
		for _, sp := range specs {
			sp.EmptySubject = true
		}
	case "inter-pathlen-0-above-inter":
		if n > 3 {
			specs[2].MaxPathLen, specs[2].MaxPathLenZero = 0, true
		}
	}
	chain, iss, err := buildChain(specs)
	if err != nil {
		panic(err)
	}
	id := &tsaIdentity{chain: chain, key: iss[0].Key.Priv}
	tsaPool[k] = id
	return id
}
