import NotationCore.GoSem.Sem
import NotationCore.Generated.Ast.Ocsp
import NotationCore.Generated.Ast.X509util
import NotationCore.Model.Ocsp
/-!
  Tie by translation:
  * `revocation/internal/ocsp` `validateResponder` — a response signed by an embedded certificate
    is accepted only if that certificate is the issuer's own or carries id-kp-OCSPSigning (the F4
    repair): the regenerated tree means `Ocsp.authorised`, for every list of extended key usages;
  * `revocation/internal/x509util` `ValidateChain` — the revocation validator refuses a chain
    exactly when the chain validator of its purpose does (the two cross-package calls are the
    primitives; their own ties are `C03_code` and `C14_code`).
-/
namespace NotationCore.Tie.Code.Ocsp
open NotationCore GoSem Generated.Ast

/-- the embedded responder certificate: its identity and its `ExtKeyUsage` list -/
def respCertV (raw : Int) (ekus : List Nat) : Val :=
  .obj [("Raw", .int raw), ("ExtKeyUsage", .list (ekus.map (fun e => .int (Int.ofNat e))))]

def rawOf (v : Val) : Int := match field v "Raw" with
  | some (.int i) => i
  | _ => 0

/-- `(*x509.Certificate).Equal` is equality of `Raw` -/
def prims : Prims := fun name args =>
  match name, args with
  | "Equal", [a, b] => some (.bool (decide (rawOf a = rawOf b)))
  | _, _ => none

def funcs : List Func := [ocsp_validateResponder]

def rangeBody : Stmt → List Stmt
  | .range _ _ _ b => b
  | _ => []
def ekuBody : List Stmt := rangeBody (ocsp_validateResponder.body.getD 2 (.opaque ""))

/-- id-kp-OCSPSigning, as the code's constant `x509.ExtKeyUsageOCSPSigning` -/
def ocspSigningEku : Nat := 9

theorem ekuLoop (fn : String) (cal) (S : Store) : ∀ (ekus : List Nat) (i : Nat),
    rangeLoop (fun st => execBlock ⟨fn, prims, cal⟩ st ekuBody) "_" "v3" i (ekus.map (fun e => .int (Int.ofNat e))) S
      = if ekus.contains ocspSigningEku then .ret [.nil] else .next S := by
  intro ekus
  induction ekus with
  | nil => intro i; simp [rangeLoop]
  | cons x r ih =>
    intro i
    have step : (fun st => execBlock ⟨fn, prims, cal⟩ st ekuBody) ([("v3", .int (Int.ofNat x))] :: S)
        = if x = 9 then .ret [.nil] else .next ([("v3", .int (Int.ofNat x))] :: S) := by
      by_cases h : x = 9
      · subst h
        simp [ekuBody, rangeBody, ocsp_validateResponder, execBlock, exec, eval, evalArgs, sbindAll, sbind, sdefine, fset, sget, fget,
          spop, binop]
      · have h' : ¬ ((x : Int) = 9) := by omega
        simp [ekuBody, rangeBody, ocsp_validateResponder, execBlock, exec, eval, evalArgs, sbindAll, sbind, sdefine, fset, sget, fget,
          spop, binop, h, h']
    generalize (fun st => execBlock ⟨fn, prims, cal⟩ st ekuBody) = F at ih step ⊢
    have ih' := ih (i + 1)
    by_cases h : x = 9
    · simp [h] at step
      simp [rangeLoop, sbindAll, sbind, sdefine, fset, ocspSigningEku, h] at step ⊢
      simp [step]
    · simp [h] at step
      have hx : (x == 9) = false := by simp [h]
      simp [rangeLoop, sbindAll, sbind, sdefine, fset, ocspSigningEku, spop, List.contains_cons, hx] at step ih' ⊢
      simp [step, ih', Ne.symm h]

/-- the response as `validateResponder` reads it -/
def respV : Ocsp.Signer → Int → Int → List Nat → Val
  | .issuer, _, _, _ => .obj [("Certificate", .nil)]
  | .delegate _ _, raw, _, ekus => .obj [("Certificate", respCertV raw ekus)]

/-- `validateResponder(resp, issuer)` returns nil exactly when the model's `authorised` holds:
    `isIssuer` ⇔ the embedded certificate's bytes are the issuer's, `ocspSigning` ⇔ its
    `ExtKeyUsage` contains id-kp-OCSPSigning -/
theorem validateResponder_eq (n : Nat) (s : Ocsp.Signer) (raw issuerRaw : Int) (ekus : List Nat)
    (hs : ∀ a b, s = .delegate a b → a = decide (raw = issuerRaw) ∧ b = ekus.contains ocspSigningEku) :
    sem prims funcs (n + 1) "validateResponder" [respV s raw issuerRaw ekus, respCertV issuerRaw []]
      = some (if Ocsp.authorised s then .nil else .err "validateResponder" 0 []) := by
  rw [sem_succ]
  have hfind : funcs.find? (fun f => f.name == "validateResponder") = some ocsp_validateResponder := rfl
  rw [hfind]
  cases s with
  | issuer =>
    simp [ocsp_validateResponder, run, pack, execBlock, exec, eval, evalArgs, sbindAll, sbind, sdefine, fset, sget, fget,
      spop, binop, respV, field, Ocsp.authorised]
  | delegate a b =>
    obtain ⟨ha, hb⟩ := hs a b rfl
    have key := ekuLoop "validateResponder" (sem prims funcs n)
      [[("v2", respCertV raw ekus), ("v1", respCertV issuerRaw []), ("v0", respV (.delegate a b) raw issuerRaw ekus)]] ekus 0
    simp only [ekuBody, rangeBody, ocsp_validateResponder, List.getD_cons_succ, List.getD_cons_zero] at key
    simp [run, pack, execBlock, exec, eval, evalArgs, sbindAll, sbind, sdefine, fset, sget, fget, spop, binop, builtin,
      respV, respCertV, field, prims, rawOf] at key
    by_cases hr : raw = issuerRaw
    · simp [ocsp_validateResponder, run, pack, execBlock, exec, eval, evalArgs, sbindAll, sbind, sdefine, fset, sget, fget,
        spop, binop, builtin, respV, respCertV, field, prims, rawOf, Ocsp.authorised, ha, hr]
    · cases hc : ekus.contains ocspSigningEku
      · have hm : ¬ (ocspSigningEku ∈ ekus) := by simpa using hc
        simp [ocsp_validateResponder, run, pack, execBlock, exec, eval, evalArgs, sbindAll, sbind, sdefine, fset, sget, fget,
          spop, binop, builtin, respV, respCertV, field, prims, rawOf, Ocsp.authorised, ha, hb, hr, hc, hm, key]
      · have hm : ocspSigningEku ∈ ekus := by simpa using hc
        simp [ocsp_validateResponder, run, pack, execBlock, exec, eval, evalArgs, sbindAll, sbind, sdefine, fset, sget, fget,
          spop, binop, builtin, respV, respCertV, field, prims, rawOf, Ocsp.authorised, ha, hb, hr, hc, hm, key]

/-! ### `x509util.ValidateChain` -/

/-- the two chain validators (cross-package): what they answer for this chain -/
def vprims (csOK tsOK : Bool) : Prims := fun name args =>
  match name, args with
  | "x509.ValidateCodeSigningCertChain", [_, _] => some (if csOK then .nil else .err "·prim" 0 [])
  | "x509.ValidateTimestampingCertChain", [_] => some (if tsOK then .nil else .err "·prim" 0 [])
  | _, _ => none

/-- `ValidateChain(chain, purpose)`: purpose 0 = code signing, 1 = timestamping (enum order tied in
    `Tie.Result`); nil exactly when the chain validator of that purpose accepts; an unknown purpose
    is refused -/
theorem ValidateChain_eq (n : Nat) (csOK tsOK : Bool) (chain : Val) (purpose : Nat) :
    sem (vprims csOK tsOK) [x509util_ValidateChain] (n + 1) "ValidateChain" [chain, .int purpose]
      = some (match purpose with
          | 0 => if csOK then .nil else .err "ValidateChain" 0 []
          | 1 => if tsOK then .nil else .err "ValidateChain" 1 []
          | _ => .err "ValidateChain" 2 []) := by
  rw [sem_succ]
  match purpose with
  | 0 => cases csOK <;> simp [List.find?, x509util_ValidateChain, run, pack, execBlock, exec, eval, evalArgs, sbindAll, sbind, sdefine,
      fset, sget, fget, spop, binop, builtin, vprims]
  | 1 => cases tsOK <;> simp [List.find?, x509util_ValidateChain, run, pack, execBlock, exec, eval, evalArgs, sbindAll, sbind, sdefine,
      fset, sget, fget, spop, binop, builtin, vprims]
  | k + 2 =>
    have h0 : ¬ ((k : Int) + 2 = 0) := by omega
    have h1 : ¬ ((k : Int) + 2 = 1) := by omega
    simp [List.find?, x509util_ValidateChain, run, pack, execBlock, exec, eval, evalArgs, sbindAll, sbind, sdefine,
      fset, sget, fget, spop, binop, builtin, vprims, h0, h1]

/-! ### `Supported` (method selection, C11) -/

/-- `ocsp.Supported(cert)`: the certificate names at least one OCSP responder -/
theorem Supported_eq (n : Nat) (servers : List Val) :
    sem prims [ocsp_Supported] (n + 1) "Supported" [.obj [("OCSPServer", .list servers)]]
      = some (.bool (!servers.isEmpty)) := by
  rw [sem_succ]
  cases servers with
  | nil => simp [List.find?, ocsp_Supported, run, pack, execBlock, exec, eval, evalArgs, sbindAll, sbind, sdefine, fset, sget, fget,
      binop, builtin, field]
  | cons d r =>
    have hl : (0 : Int) < (r.length : Int) + 1 := by omega
    simp [List.find?, ocsp_Supported, run, pack, execBlock, exec, eval, evalArgs, sbindAll, sbind, sdefine, fset, sget, fget,
      binop, builtin, field, hl]

end NotationCore.Tie.Code.Ocsp
