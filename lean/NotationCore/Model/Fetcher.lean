import NotationCore.Model.Basic
/-!
  Model of `revocation/crl/fetcher.go`: `HTTPFetcher.Fetch`, `isEffective`, `fetch`,
  `fetchDeltaCRL`, `parseCRLDistributionPoint`, `fetchCRL`, against a caller-supplied `Cache`.

  Primitives: what the HTTP transport + `x509.ParseRevocationList` deliver for a URL
  (`ServerAns`), what the cache's `Get` / `Set` answer, the wall clock.
-/
namespace NotationCore.Fetcher
open NotationCore

/-- one GeneralName inside a distribution point's `fullName` -/
inductive GName where
  | uri (u : Url)
  | other                      -- directoryName, dNSName, …: any tag other than [6]
deriving Repr, DecidableEq, Inhabited

/-- one DistributionPoint of the freshest-CRL extension -/
inductive DP where
  /-- no `distributionPoint` field (only reasons / cRLIssuer, or empty) -/
  | noName
  /-- `fullName [0] GeneralNames` -/
  | fullName (names : List GName)
  /-- `nameRelativeToCRLIssuer [1]` -/
  | relativeName
  /-- not a SEQUENCE, or its first field is malformed -/
  | malformed
deriving Repr, DecidableEq, Inhabited

/-- the freshest-CRL extension of a base CRL -/
inductive FreshExt where
  | absent
  /-- the extension value is not one DER SEQUENCE -/
  | notSequence
  | points (dps : List DP)
deriving Repr, DecidableEq, Inhabited

/-- a parsed CRL as the fetcher sees it -/
structure Crl where
  id : Nat
  /-- `NextUpdate`; `zeroT` when the CRL has none -/
  nextUpdate : Time
  fresh : FreshExt
deriving Repr, DecidableEq, Inhabited

structure Bundle where
  base : Crl
  delta : Option Crl
deriving Repr, DecidableEq, Inhabited

/-- what one download attempt gives -/
inductive ServerAns where
  /-- the URL does not parse or its scheme is not `http`: refused before any request -/
  | notPlainHttp
  /-- request error, status other than 200, body too large, or not a parseable CRL -/
  | fails
  | crl (c : Crl)
deriving Repr, DecidableEq, Inhabited

inductive GetAns where
  | miss                       -- `ErrCacheMiss`
  | fault                      -- any other error
  | hit (b : Bundle)
deriving Repr, DecidableEq, Inhabited

/-- the world a fetch runs in -/
structure World where
  server : List (Url × ServerAns)
  /-- content of the cache (a cache that answers from a map) -/
  cache : List (Url × Bundle)
  getFault : Bool
  setFault : Bool
  now : Time
deriving Repr, Inhabited

structure Config where
  hasCache : Bool
  discardCacheError : Bool
deriving Repr, DecidableEq, Inhabited

inductive Err where
  | emptyUrl | cacheGet | download | cacheSet
deriving Repr, DecidableEq, Inhabited

inductive Source where
  | cached | downloaded
deriving Repr, DecidableEq, Inhabited

structure Out where
  result : Except Err (Bundle × Source)
  /-- URLs requested over HTTP, in order -/
  contacts : List Url
  cacheGets : Nat
  cacheSets : Nat
deriving Repr, Inhabited

/-- `isEffective(crl)` at `now` -/
def effective (now : Time) (c : Crl) : Bool := !isZeroT c.nextUpdate && !decide (now > c.nextUpdate)

def bundleEffective (now : Time) (b : Bundle) : Bool :=
  effective now b.base && (match b.delta with | none => true | some d => effective now d)

def serverAns (w : World) (u : Url) : ServerAns :=
  match w.server.lookup u with
  | some a => a
  | none => .fails

def cacheGet (w : World) (u : Url) : GetAns :=
  if w.getFault then .fault
  else match w.cache.lookup u with
    | some b => .hit b
    | none => .miss

/-- the URIs one distribution point contributes; `none` = parse error -/
def dpUrls : DP → Option (List Url)
  | .noName => some []
  | .fullName names => some ((names.takeWhile (fun n => match n with | .uri _ => true | .other => false)).filterMap
      (fun n => match n with | .uri u => some u | .other => none))
  | .relativeName => none
  | .malformed => none

/-- `parseCRLDistributionPoint` over the points in order -/
def parsePoints : List DP → Option (List Url)
  | [] => some []
  | d :: ds =>
    match dpUrls d with
    | none => none
    | some us =>
      match parsePoints ds with
      | none => none
      | some rest => some (us ++ rest)

/-- the locations a base CRL advertises for its delta: `none` = the extension does not parse -/
def advertised (c : Crl) : Option (List Url) :=
  match c.fresh with
  | .absent => some []
  | .notSequence => none
  | .points dps => parsePoints dps

/-- `fetchCRL(url)`: the answer and whether an HTTP request went out -/
def fetchCRL (w : World) (u : Url) : Option Crl × List Url :=
  match serverAns w u with
  | .notPlainHttp => (none, [])
  | .fails => (none, [u])
  | .crl c => (some c, [u])

/-- the loop of `fetchDeltaCRL`: first location that answers -/
def firstAnswer (w : World) : List Url → Option Crl × List Url
  | [] => (none, [])
  | u :: us =>
    match fetchCRL w u with
    | (some c, cs) => (some c, cs)
    | (none, cs) =>
      let (r, cs') := firstAnswer w us
      (r, cs ++ cs')

/-- `HTTPFetcher.fetch(url)`: base, then the delta the base advertises -/
def download (w : World) (u : Url) : Option Bundle × List Url :=
  match fetchCRL w u with
  | (none, cs) => (none, cs)
  | (some base, cs) =>
    match advertised base with
    | none => (none, cs)                                  -- freshest-CRL extension does not parse
    | some [] => (some { base, delta := none }, cs)       -- errDeltaCRLNotFound
    | some (l :: ls) =>
      match firstAnswer w (l :: ls) with
      | (some d, cs') => (some { base, delta := some d }, cs ++ cs')
      | (none, cs') => (none, cs ++ cs')

def cachePut (w : World) (u : Url) (b : Bundle) : World :=
  { w with cache := (u, b) :: w.cache.filter (fun e => e.1 != u) }

/-- the second half of `Fetch`: download, then store -/
def viaServer (cfg : Config) (w : World) (u : Url) (gets : Nat) : World × Out :=
  match download w u with
  | (none, cs) => (w, { result := .error .download, contacts := cs, cacheGets := gets, cacheSets := 0 })
  | (some b, cs) =>
    if !cfg.hasCache then (w, { result := .ok (b, .downloaded), contacts := cs, cacheGets := gets, cacheSets := 0 })
    else if w.setFault then
      if cfg.discardCacheError then (w, { result := .ok (b, .downloaded), contacts := cs, cacheGets := gets, cacheSets := 1 })
      else (w, { result := .error .cacheSet, contacts := cs, cacheGets := gets, cacheSets := 1 })
    else (cachePut w u b, { result := .ok (b, .downloaded), contacts := cs, cacheGets := gets, cacheSets := 1 })

/-- `HTTPFetcher.Fetch(ctx, url)` -/
def fetch (cfg : Config) (w : World) (u : Url) : World × Out :=
  if u == "" then (w, { result := .error .emptyUrl, contacts := [], cacheGets := 0, cacheSets := 0 })
  else if !cfg.hasCache then viaServer cfg w u 0
  else match cacheGet w u with
    | .hit b =>
      if bundleEffective w.now b then (w, { result := .ok (b, .cached), contacts := [], cacheGets := 1, cacheSets := 0 })
      else viaServer cfg w u 1
    | .miss => viaServer cfg w u 1
    | .fault =>
      if cfg.discardCacheError then viaServer cfg w u 1
      else (w, { result := .error .cacheGet, contacts := [], cacheGets := 1, cacheSets := 0 })

/-! ### histories -/

/-- what can happen between fetches -/
inductive Op where
  | fetch (u : Url)
  /-- the server starts answering `u` with `a` (a newer CRL, or a fault) -/
  | publish (u : Url) (a : ServerAns)
  /-- the cache entry for `u` is replaced behind the fetcher's back (expiry is modelled by
      entries whose next-update is already behind `now`) -/
  | plant (u : Url) (b : Bundle)
  | evict (u : Url)
  | setGetFault (on : Bool)
  | setSetFault (on : Bool)
  | tick (dt : Nat)             -- time passes
deriving Repr, Inhabited

def step (cfg : Config) (w : World) : Op → World × Option Out
  | .fetch u => let (w', o) := fetch cfg w u; (w', some o)
  | .publish u a => ({ w with server := (u, a) :: w.server.filter (fun e => e.1 != u) }, none)
  | .plant u b => (cachePut w u b, none)
  | .evict u => ({ w with cache := w.cache.filter (fun e => e.1 != u) }, none)
  | .setGetFault on => ({ w with getFault := on }, none)
  | .setSetFault on => ({ w with setFault := on }, none)
  | .tick dt => ({ w with now := w.now + dt }, none)

/-- the outputs of the fetches of a history, with the world each ran in -/
def run (cfg : Config) : World → List Op → List (World × Out)
  | _, [] => []
  | w, op :: ops =>
    match step cfg w op with
    | (w', some o) => (w, o) :: run cfg w' ops
    | (w', none) => run cfg w' ops

end NotationCore.Fetcher
