import DriverLib.Json
import NotationCore.Model.Revocation
import DriverLib.Chain
import NotationCore.Spec.Monitors
/-! driver handlers: per-certificate revocation check (C04, C05, C06, C10, C11, C12) -/
namespace DriverLib
open Lean NotationCore

def resultName : Result → String
  | .unknown => "unknown" | .ok => "ok" | .nonRevokable => "nonRevokable" | .revoked => "revoked"
def methodName : Method → String
  | .unknown => "unknown" | .ocsp => "ocsp" | .crl => "crl" | .ocspFallbackCrl => "ocspFallbackCrl"

def serverResultJson (s : ServerResult) : Json :=
  jobj [("result", jstr (resultName s.result)), ("server", jstr s.server), ("method", jstr (methodName s.method)), ("err", jstr s.err)]

def certResultJson (r : CertResult) : Json :=
  jobj [("result", jstr (resultName r.result)), ("method", jstr (methodName r.method)),
        ("servers", jarr (r.servers.map serverResultJson))]

def entryOf (j : Json) : E Crl.Entry := do
  pure { serial := ← fldInt j "serial", reason := ← fldNat j "reason", revTime := ← fldTime j "revTime",
         invDate := ← fldTime j "invDate", badExt := ← fldBool j "badExt" }

def optInt (j : Json) (k : String) : E (Option Int) :=
  match fldOpt j k with
  | none => pure none
  | some v => do pure (some (← v.getInt?))

def crlRecOf (j : Json) : E Crl.CrlRec := do
  let ind : Option (Option Int) ← match fldOpt j "indicator" with
    | none => pure none
    | some v => match v.getInt? with
      | .ok n => pure (some (some n))
      | .error _ => pure (some none)      -- "bad"
  pure { sigOK := ← fldBool j "sigOK", nextUpdate := ← fldTime j "nextUpdate", number := ← optInt j "number",
         critUnknownExt := ← fldBool j "critUnknownExt", indicator := ind, entries := ← fldList j "entries" entryOf }

def fetchOutOf (j : Json) : E Crl.FetchOut := do
  match fldOpt j "base" with
  | none => pure .fail
  | some b =>
    let base ← crlRecOf b
    let delta ← match fldOpt j "delta" with
      | none => pure none
      | some d => do pure (some (← crlRecOf d))
    pure (.bundle ⟨base, delta⟩)

def statusOf (s : String) : E Ocsp.Status :=
  match s with
  | "good" => pure .good | "revoked" => pure .revoked | "unknown" => pure .unknown
  | _ => throw s!"status {s}"

def exchangeOf (j : Json) : E Ocsp.Exchange := do
  match fldOpt j "err" with
  | some e =>
    match (← e.getStr?) with
    | "generic" => pure (.err .generic)
    | "timeout" => pure (.err .timeout)
    | _ => pure (.err .other)
  | none =>
    let inv : Option (Option Int) ← match fldOpt j "invDate" with
      | none => pure none
      | some v => match timeOf v with
        | .ok t => pure (some (some t))
        | .error _ => pure (some none)    -- "bad"
    let signer ← match (← fldStr j "signer") with
      | "issuer" => pure Ocsp.Signer.issuer
      | "delegate" => pure (Ocsp.Signer.delegate (← fldBool j "isIssuer") (← fldBool j "ocspSigning"))
      | s => throw s!"signer {s}"
    pure (.resp { status := ← statusOf (← fldStr j "status"), nextUpdate := ← fldTime j "nextUpdate", invDate := inv, signer })

def urlKindOf (s : String) : E Ocsp.UrlKind :=
  match s with
  | "unparsable" => pure .unparsable
  | "http" => pure (.scheme true)
  | "other" => pure (.scheme false)
  | _ => throw s!"urlKind {s}"

def lookupD {α} (l : List (String × α)) (k : String) (d : α) : α :=
  match l.lookup k with
  | some v => v
  | none => d

/-- one non-root certificate with its environment:
    {cert:{serial, ocsp, crlDPs, hasFreshest}, ocspEnv:{url:{kind, ex}}, crlEnv:{url: fetchOut}} -/
def levelOf (now : Int) (j : Json) : E (Revocation.Env × Revocation.Cert) := do
  let cj ← fld j "cert"
  let cert : Revocation.Cert := { serial := ← fldInt cj "serial", ocsp := ← strList cj "ocsp",
                                  crlDPs := ← strList cj "crlDPs", hasFreshest := ← fldBool cj "hasFreshest" }
  let oenv ← (← fld j "ocspEnv").getObj?
  let okinds ← oenv.toList.mapM (fun (p : String × Json) => do pure (p.1, ← urlKindOf (← fldStr p.2 "kind")))
  let oexs ← oenv.toList.mapM (fun (p : String × Json) => do
    match fldOpt p.2 "ex" with
    | some x => pure (p.1, ← exchangeOf x)
    | none => pure (p.1, Ocsp.Exchange.err .other))
  let cenv ← (← fld j "crlEnv").getObj?
  let cf ← cenv.toList.mapM (fun (p : String × Json) => do pure (p.1, ← fetchOutOf p.2))
  let env : Revocation.Env :=
    { ocsp := { urlKind := fun u => lookupD okinds u .unparsable, exchange := fun u => lookupD oexs u (.err .other), now },
      crl := { fetch := fun u => lookupD cf u .fail, now } }
  pure (env, cert)

def contactJson : Revocation.Contact → Json
  | .ocsp u => jarr [jstr "ocsp", jstr u]
  | .crl u => jarr [jstr "crl", jstr u]

def resultOfName (s : String) : E Result :=
  match s with
  | "unknown" => pure .unknown | "ok" => pure .ok | "nonRevokable" => pure .nonRevokable | "revoked" => pure .revoked
  | _ => throw s!"result {s}"
def methodOfName (s : String) : E Method :=
  match s with
  | "unknown" => pure .unknown | "ocsp" => pure .ocsp | "crl" => pure .crl | "ocspFallbackCrl" => pure .ocspFallbackCrl
  | _ => throw s!"method {s}"

def serverResultOf (j : Json) : E ServerResult := do
  pure { result := ← resultOfName (← fldStr j "result"), server := ← fldStr j "server",
         method := ← methodOfName (← fldStr j "method"), err := ← fldStr j "err" }

def certResultOf (j : Json) : E CertResult := do
  pure { result := ← resultOfName (← fldStr j "result"), method := ← methodOfName (← fldStr j "method"),
         servers := ← fldList j "servers" serverResultOf }

def contactOf (j : Json) : E Revocation.Contact := do
  let a ← j.getArr?
  if h : a.size = 2 then
    match (← a[0].getStr?) with
    | "ocsp" => pure (.ocsp (← a[1].getStr?))
    | _ => pure (.crl (← a[1].getStr?))
  else throw "contact"

def firstSome {α} (l : List α) (f : α → Option String) : Option String := l.findSome? f

/-- the property monitors evaluated on what the implementation returned -/
def monitorValidate (prop mode : String) (st : Int) (levels : List (Revocation.Env × Revocation.Cert))
    (modelErr : Bool) (impl : Json) : E (Option String) := do
  if (fldOpt impl "panic").isSome then return some "panic_on_caller"
  match fldOpt impl "error" with
  | some e =>
    let es ← e.getStr?
    if es != "invalidChain" then return some "unexpected_error_kind"
    if (fldOpt impl "results_with_error").isSome then return some "results_returned_with_error"
    if !modelErr then return some "valid_chain_rejected"
    return none
  | none =>
    if modelErr then return some "invalid_chain_accepted"
    let rs ← fldList impl "results" certResultOf
    let traces ← match fldOpt impl "traces" with
      | none => pure []          -- not observed (cancellation cases): trace clauses are not evaluated
      | some t => arrMap (← t.getArr?) (fun t => do arrMap (← t.getArr?) contactOf)
    -- structural completeness is needed by every per-certificate monitor
    if rs.length != levels.length + 1 then return some "not_one_result_per_certificate"
    let zipped := (levels.zip rs).zip (traces ++ List.replicate (levels.length - traces.length) [])
    let perCert (f : Revocation.Env → Revocation.Cert → CertResult → List Revocation.Contact → Option String) : Option String :=
      zipped.findSome? (fun (p : ((Revocation.Env × Revocation.Cert) × CertResult) × List Revocation.Contact) => f p.1.1.1 p.1.1.2 p.1.2 p.2)
    let ocspOnlyMon := fun (env : Revocation.Env) (c : Revocation.Cert) (r : CertResult) (tr : List Revocation.Contact) =>
      match Monitor.c04 env.ocsp c.ocsp st r with
      | some x => some x
      | none => if tr.any Props.isCrlContact then some "standalone_entry_point_contacted_crl" else none
    let out := match prop with
      | "C04" => perCert (fun env c r tr =>
          if mode == "ocsp" then ocspOnlyMon env c r tr
          else if c.crlDPs.isEmpty then Monitor.c04 env.ocsp c.ocsp st r else Monitor.c06 env c st r)
      | "C05" => perCert (fun env c r _ =>
          if mode == "ocsp" then none
          else if c.ocsp.isEmpty then Monitor.c05 env.crl c.toCrl st r else Monitor.c06 env c st r)
      | "C06" => perCert (fun env c r tr => if mode == "ocsp" then ocspOnlyMon env c r tr else Monitor.c06 env c st r)
      | "C10" => perCert (fun env c r _ =>
          -- CRL entries decide when there is no responder, and also when the responders were inconclusive (the CRL stage follows)
          if mode == "ocsp" || (!c.ocsp.isEmpty && (Monitor.ocspFinal env.ocsp st c.ocsp).isSome) then none
          else match c.crlDPs with
            | [u] =>
              match env.crl.fetch u with
              | .bundle b =>
                if Crl.validate env.crl.now b && !(c.hasFreshest && b.delta.isNone) then
                  let es := b.base.entries ++ (match b.delta with | some d => d.entries | none => [])
                  let v : Option Crl.EntryVerdict := match r.result with
                    | .ok => some .ok | .revoked => some .revoked | .unknown => some .err | .nonRevokable => none
                  match v with
                  | some v => Monitor.c10 c.serial st es v
                  | none => some "nonrevokable_with_distribution_point"
                else Monitor.c05 env.crl c.toCrl st r
              | .fail => Monitor.c05 env.crl c.toCrl st r
            | _ => Monitor.c05 env.crl c.toCrl st r)
      | "C11" =>
        -- where the contacts were not observed (cancellation cases) the model's own trace stands in: the trace clauses then
        -- pass (`Monitor.c11_model`) and only the routing visible in the result — method label, verdict — is judged
        let observed := (fldOpt impl "traces").isSome
        perCert (fun env c r tr =>
          let tr' := if observed then tr else Revocation.certTrace env c st
          if mode == "ocsp" then ocspOnlyMon env c r (if observed then tr else []) else Monitor.c11 env c st r tr')
      | "C12" =>
        if mode == "ocsp" then
          -- standalone entry point: completeness and the OCSP shape per certificate
          if rs[levels.length]?.map (·.result) != some .nonRevokable then some "root_not_nonrevokable"
          else perCert (fun _ c r _ =>
            if r.method != .ocsp then some "standalone_result_not_labelled_ocsp"
            else if c.ocsp.isEmpty then (if r.result == .nonRevokable then none else some "no_responder_must_be_nonrevokable")
            else if Monitor.ocspShapeB c.ocsp r.result r.servers then none else some "ocsp_result_shape")
        else Monitor.c12 (levels.map (·.2)) rs
      | _ => none
    return out

/-- in: {chain:{purpose, certs, sig, sigSelf, st}, certs:[level…], now, st, mode:"full"|"ocsp"}
    out: {error:"invalidChain"} | {results:[…], traces:[[…]…]} -/
def handleValidate (prop : String) (j impl : Json) : E Json := do
  let ci ← chainInOf (← fld j "chain")
  let now ← fldTime j "now"
  let st ← fldTime j "st"
  let mode ← fldStr j "mode"
  let levels ← fldList j "certs" (levelOf now)
  let chainOK := Chain.accepted (Chain.validate ci.purpose ci.sig ci.sigSelf ci.chain none)
  let r := if mode == "ocsp" then Revocation.checkStatus ci.chain.length chainOK levels st
           else Revocation.validate ci.chain.length chainOK levels st
  let modelErr := match r with | .error _ => true | .ok _ => false
  let verdict ← monitorValidate prop mode st levels modelErr impl
  let spec := match verdict with
    | none => jobj [("ok", jbool true)]
    | some cl => jobj [("ok", jbool false), ("clause", jstr cl)]
  match r with
  | .error _ => pure (jobj [("model", jobj [("error", jstr "invalidChain")]), ("spec", spec)])
  | .ok rs =>
    let traces := levels.map (fun (p : Revocation.Env × Revocation.Cert) =>
      if mode == "ocsp" then jarr ((Ocsp.contacted p.1.ocsp st p.2.ocsp).map (fun u => jarr [jstr "ocsp", jstr u]))
      else jarr ((Revocation.certTrace p.1 p.2 st).map contactJson))
    pure (jobj [("model", jobj [("results", jarr (rs.map certResultJson)), ("traces", jarr traces)]), ("spec", spec)])

end DriverLib
