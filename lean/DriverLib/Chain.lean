import DriverLib.Json
import NotationCore.Model.Chain
/-! driver handler: chain validation (C03, C14) -/
namespace DriverLib
open Lean NotationCore NotationCore.Chain NotationCore.Algorithm

def keyOf (j : Json) : E Key := do
  let t ← fldStr j "t"
  match t with
  | "rsa" => pure (.rsa (← fldNat j "bits"))
  | "ec" => pure (.ec (← fldNat j "bits"))
  | _ => pure .other

def optBool (j : Json) (k : String) : E (Option Bool) :=
  match fldOpt j k with
  | none => pure none
  | some v => do pure (some (← v.getBool?))

def certOf (j : Json) : E Cert := do
  pure { id := ← fldNat j "id", subject := ← fldNat j "subject", issuer := ← fldNat j "issuer",
         v3 := ← fldBool j "v3", bcValid := ← fldBool j "bcValid", isCA := ← fldBool j "isCA",
         maxPathLen := ← fldInt j "maxPathLen", maxPathLenZero := ← fldBool j "maxPathLenZero",
         kuExt := ← optBool j "kuExt", ku := ← fldNat j "ku", ekuExt := ← optBool j "ekuExt",
         eku := ← natList j "eku", unknownEku := ← fldNat j "unknownEku", key := ← keyOf (← fld j "key"),
         notBefore := ← fldTime j "notBefore", notAfter := ← fldTime j "notAfter" }

def pairList (j : Json) (k : String) : E (List (Nat × Nat)) :=
  fldList j k (fun p => do
    let a ← p.getArr?
    if h : a.size = 2 then pure (← a[0].getNat?, ← a[1].getNat?) else throw "pair")

structure ChainIn where
  purpose : Purpose
  chain : List Cert
  sig : Sig
  sigSelf : SigSelf
  st : Option Int

def chainInOf (j : Json) : E ChainIn := do
  let purpose ← match (← fldStr j "purpose") with
    | "cs" => pure Purpose.codeSigning
    | "ts" => pure Purpose.timestamping
    | s => throw s!"purpose {s}"
  let chain ← fldList j "certs" certOf
  let sigs ← pairList j "sig"
  let selfs ← natList j "sigSelf"
  let st ← fldTimeOpt j "st"
  pure { purpose, chain, sig := fun c p => sigs.contains (c, p), sigSelf := fun c => selfs.contains c, st }

def errName (e : Chain.Err) : String := (reprStr e).replace "NotationCore.Chain.Err." ""

/-- in: {purpose, certs, sig, sigSelf, st}; out: {ok, err} -/
def handleChain (j : Json) : E Json := do
  let i ← chainInOf j
  match Chain.validate i.purpose i.sig i.sigSelf i.chain i.st with
  | .ok _ => pure (jobj [("ok", jbool true)])
  | .error e => pure (jobj [("ok", jbool false), ("err", jstr (errName e))])

/-- the six approved pairs as the property states them: (key type, size) ↦ algorithm, with the numbers of the enums
    `KeyType` (RSA = 1, EC = 2) and `Algorithm` (PS256, PS384, PS512, ES256, ES384, ES512 = 1 … 6) -/
def approvedSigAlg : List ((Nat × Nat) × Nat) :=
  [((1, 2048), 1), ((1, 3072), 2), ((1, 4096), 3), ((2, 256), 4), ((2, 384), 5), ((2, 521), 6)]

/-- the algorithm tables as functions (C02): hash of an algorithm number, algorithm of a key
    specification, key specification of a key -/
def handleAlgTable (j impl : Json) : E Json := do
  match (← fldStr j "q") with
  | "hash" => pure (jobj [("hash", jnat (Algorithm.hash (← fldNat j "alg")))])
  | "sigalg" =>
    let t ← fldNat j "type"
    let s ← fldNat j "size"
    let model := jobj [("alg", jnat (signatureAlgorithm ⟨t, s⟩))]
    -- C02 on what the implementation answered: an algorithm for exactly the six pairs, and the right one
    let want := (approvedSigAlg.lookup (t, s)).getD 0
    let verdict : Option String := match (impl.getObjVal? "alg").toOption.bind (fun a => a.getNat?.toOption) with
      | some got =>
        if got == want then none
        else if want == 0 then some "algorithm_bound_to_a_key_type_and_size_outside_the_six_approved_pairs"
        else some "approved_pair_not_bound_to_its_algorithm"
      | none => none
    pure (jobj [("model", model), ("spec", match verdict with
      | none => jobj [("ok", jbool true)]
      | some cl => jobj [("ok", jbool false), ("clause", jstr cl)])])
  | "keyspec" =>
    match extractKeySpec (← keyOf (← fld j "key")) with
    | some ks => pure (jobj [("ok", jbool true), ("type", jnat ks.type), ("size", jnat ks.size)])
    | none => pure (jobj [("ok", jbool false)])
  | q => throw s!"algtable: unknown question {q}"

end DriverLib
