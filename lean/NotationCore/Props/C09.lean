import NotationCore.Model.Parse
import NotationCore.Model.Jws
import NotationCore.Model.Cose
import NotationCore.Model.Revocation
import NotationCore.Props.C16
import NotationCore.Props.C17
import NotationCore.TieC09
/-!
  C09 — untrusted input never crashes or hangs the caller: the part a model can carry.

  * termination: the one loop in scope whose termination is not structural (`parseCertificates`)
    terminates for every input, given that `pem.Decode` consumes input; every other modelled loop is
    a structural recursion (Lean accepted the definitions as total functions: chains, header
    members, critical labels, CRL entries, distribution points, OCSP servers, freshest-CRL points);
    the fork/join of revocation checking terminates under every schedule (C17).
  * no panic value: the executable models of reading an envelope and of signing have no reachable
    panic outcome.
  * the panic-capable sites of the real code: `TieC09` (regenerated inventory = reviewed inventory).

  What no model exhibits — nil dereferences, index errors and unbounded allocation inside the
  dependencies (encoding/json, fxamacker/cbor, go-cose, golang-jwt, crypto/x509, x/crypto/ocsp) and in
  unmodelled glue — is searched for by the hostile-input runs of the harness; see DESIGN.md.
-/
namespace NotationCore.Props
open NotationCore Parse

theorem pemLoop_terminates (dec : Decoder) (parse : Bytes → Option Nat) (hc : Consumes dec) :
    ∀ (fuel : Nat) (b : Block) (rest : Bytes) (acc : List Nat), rest.length < fuel →
      ∃ r, pemLoop dec parse fuel b rest acc = some r := by
  intro fuel
  induction fuel with
  | zero => intro b rest acc h; omega
  | succ n ih =>
    intro b rest acc h
    unfold pemLoop
    cases parse b.bytes with
    | none => exact ⟨_, rfl⟩
    | some c =>
      simp only []
      cases hd : dec rest with
      | none => exact ⟨_, rfl⟩
      | some p =>
        obtain ⟨b', rest'⟩ := p
        simp only []
        have := hc rest b' rest' hd
        exact ih b' rest' _ (by omega)

/-- **C09 (reading a certificate file terminates)**: for every byte string, `parseCertificates`
    returns certificates or an error — the fuel `len(data) + 1` is never exhausted -/
theorem C09_parseCertificates_total (dec : Decoder) (parse : Bytes → Option Nat) (parseDER : Bytes → Option (List Nat))
    (hc : Consumes dec) (data : Bytes) : ∃ r, parseCertificates dec parse parseDER data = some r := by
  unfold parseCertificates
  cases hd : dec data with
  | none => cases parseDER data <;> exact ⟨_, rfl⟩
  | some p =>
    obtain ⟨b, rest⟩ := p
    simp only []
    have := hc data b rest hd
    exact pemLoop_terminates dec parse hc _ b rest [] (by omega)

/-- the number of certificates returned is bounded by the input length: the loop cannot spin -/
theorem pemLoop_length (dec : Decoder) (parse : Bytes → Option Nat) (hc : Consumes dec) :
    ∀ (fuel : Nat) (b : Block) (rest : Bytes) (acc cs : List Nat),
      pemLoop dec parse fuel b rest acc = some (.ok cs) → cs.length ≤ acc.length + rest.length + 1 := by
  intro fuel
  induction fuel with
  | zero => intro b rest acc cs h; simp [pemLoop] at h
  | succ n ih =>
    intro b rest acc cs h
    unfold pemLoop at h
    cases hp : parse b.bytes with
    | none => rw [hp] at h; simp at h
    | some c =>
      rw [hp] at h
      simp only [] at h
      cases hd : dec rest with
      | none =>
        rw [hd] at h
        simp only [Option.some.injEq, Except.ok.injEq] at h
        rw [← h]; simp
      | some p =>
        obtain ⟨b', rest'⟩ := p
        rw [hd] at h
        simp only [] at h
        have h1 := hc rest b' rest' hd
        have h2 := ih b' rest' _ cs h
        simp only [List.length_append, List.length_cons, List.length_nil] at h2
        omega

/-- **C09 (reading a key file)**: total by construction, one block only — no loop at all -/
theorem C09_parsePrivateKeyPEM_cases (dec : Decoder) (pkcs8 ec pkcs1 : Bytes → Bool) (data : Bytes) :
    parsePrivateKeyPEM dec pkcs8 ec pkcs1 data = .noPEM ∨ parsePrivateKeyPEM dec pkcs8 ec pkcs1 data = .unsupportedType ∨
    ∃ ok, parsePrivateKeyPEM dec pkcs8 ec pkcs1 data = .parsed ok := by
  unfold parsePrivateKeyPEM
  cases dec data with
  | none => exact Or.inl rfl
  | some p =>
    obtain ⟨b, _⟩ := p
    simp only []
    split
    · exact Or.inr (Or.inr ⟨_, rfl⟩)
    · split
      · exact Or.inr (Or.inr ⟨_, rfl⟩)
      · split
        · exact Or.inr (Or.inr ⟨_, rfl⟩)
        · exact Or.inr (Or.inl rfl)

/-- **C09 (signing)**: no request makes the model of `Sign` panic (C16_never_panics) — restated
    here so that the C09 audit covers it -/
theorem C09_sign_never_panics (fmt : Sign.Fmt) (r : Sign.Req) : isPanic (Sign.sign fmt r) = false :=
  sign_not_panic fmt r

/-- **C09 (revocation fork/join)**: under every schedule the call ends (returned or re-panicked on
    the caller) within `4m + 4` actions and the process is never aborted — C17, restated -/
theorem C09_revocation_join (e : Conc.Env α) (n : Nat) (s : Conc.State α) (h : ReachableIn e n s) :
    n ≤ 4 * e.m + 4 ∧ s.crashed = false :=
  ⟨by have := C17_bounded e n s h; omega, C17_no_crash e s h.reachable⟩

/-! ### non-vacuity: a decoder that consumes one byte per block -/
def exDec : Decoder := fun d => match d with | [] => none | x :: rest => some ({ type := "CERTIFICATE", bytes := [x] }, rest)
example : Consumes exDec := by
  intro d b rest h
  cases d with
  | nil => simp [exDec] at h
  | cons x xs => simp [exDec] at h; rw [← h.2]; simp
example : parseCertificates exDec (fun b => b.head?) (fun _ => none) [7, 8, 9] = some (.ok [7, 8, 9]) := by rfl

end NotationCore.Props
