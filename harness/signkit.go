package main

// signing toolkit: local and remote signers, sign requests

import (
	"crypto"
	"crypto/x509"
	"errors"
	"strings"
	"sync"
	"time"

	"github.com/notaryproject/notation-core-go/signature"
	ncose "github.com/notaryproject/notation-core-go/signature/cose"
	"github.com/notaryproject/notation-core-go/signature/jws"
)

func keySpecOf(keyID string) signature.KeySpec {
	switch {
	case strings.HasPrefix(keyID, "rsa2048"):
		return signature.KeySpec{Type: signature.KeyTypeRSA, Size: 2048}
	case strings.HasPrefix(keyID, "rsa3072"):
		return signature.KeySpec{Type: signature.KeyTypeRSA, Size: 3072}
	case strings.HasPrefix(keyID, "rsa4096"):
		return signature.KeySpec{Type: signature.KeyTypeRSA, Size: 4096}
	case strings.HasPrefix(keyID, "rsa1024"):
		return signature.KeySpec{Type: signature.KeyTypeRSA, Size: 1024}
	case strings.HasPrefix(keyID, "ec256"):
		return signature.KeySpec{Type: signature.KeyTypeEC, Size: 256}
	case strings.HasPrefix(keyID, "ec384"):
		return signature.KeySpec{Type: signature.KeyTypeEC, Size: 384}
	case strings.HasPrefix(keyID, "ec521"):
		return signature.KeySpec{Type: signature.KeyTypeEC, Size: 521}
	case strings.HasPrefix(keyID, "ec224"):
		return signature.KeySpec{Type: signature.KeyTypeEC, Size: 224}
	}
	return signature.KeySpec{}
}

// remoteSigner implements signature.Signer (not LocalSigner): it signs the bytes it is handed with
// crypto/* directly, in the raw format both envelope formats expect (PSS / fixed-width r||s), and
// records what it was handed.
type remoteSigner struct {
	mu        sync.Mutex
	key       crypto.Signer
	spec      signature.KeySpec
	specErr   error
	chain     []*x509.Certificate
	signErr   error
	nilChain  bool
	emptySig  bool
	signAlg   string // JWS-style name of the algorithm to sign with
	handed    [][]byte
	produced  [][]byte
	calls     int
	specCalls int
}

func (s *remoteSigner) Sign(payload []byte) ([]byte, []*x509.Certificate, error) {
	s.mu.Lock()
	s.calls++
	s.handed = append(s.handed, append([]byte{}, payload...))
	s.mu.Unlock()
	if s.signErr != nil {
		return nil, nil, s.signErr
	}
	var sig []byte
	if !s.emptySig {
		sig = rawSign(s.signAlg, s.key, payload)
		s.mu.Lock()
		s.produced = append(s.produced, sig)
		s.mu.Unlock()
	}
	if s.nilChain {
		return sig, nil, nil
	}
	return sig, s.chain, nil
}

func (s *remoteSigner) KeySpec() (signature.KeySpec, error) {
	s.mu.Lock()
	s.specCalls++
	s.mu.Unlock()
	return s.spec, s.specErr
}

func newRemote(id *identity) *remoteSigner {
	return &remoteSigner{key: getKey(id.keyID).Priv, spec: keySpecOf(id.keyID), chain: id.chain, signAlg: id.alg}
}

func newLocal(id *identity) signature.Signer {
	s, err := signature.NewLocalSigner(id.chain, getKey(id.keyID).Priv)
	if err != nil {
		panic(err)
	}
	return s
}

func mediaType(format string) string {
	if format == "cose" {
		return ncose.MediaTypeEnvelope
	}
	return jws.MediaTypeEnvelope
}

func newEnvelope(format string) signature.Envelope {
	e, err := signature.NewEnvelope(mediaType(format))
	if err != nil {
		panic(err)
	}
	return e
}

func baseRequest(signer signature.Signer, payload string, scheme signature.SigningScheme, st time.Time) *signature.SignRequest {
	return &signature.SignRequest{
		Payload:       signature.Payload{ContentType: ctyNotary, Content: []byte(payload)},
		Signer:        signer,
		SigningTime:   st,
		SigningScheme: scheme,
	}
}

var errScripted = errors.New("scripted failure")
