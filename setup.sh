#!/bin/sh
# offline setup: build translator, Lean project (theorems + driver) and harness from files on disk
set -e
cd "$(dirname "$0")"
export GOFLAGS=-mod=mod GOPROXY=off GOSUMDB=off GOTOOLCHAIN=local CGO_ENABLED=0
mkdir -p .bin .tmp evidence replays
(cd extract && go build -o ../.bin/extract .)
./.bin/extract /repo lean/NotationCore/Generated
(cd lean && lake build NotationCore driver)
cp lean/.lake/build/bin/driver .bin/driver.lastgood
(cd harness && go build -tags verif -o ../.bin/harness .)
echo setup ok
