import NotationCore.GoSem.Sem
import NotationCore.Generated.Ast.X509
import NotationCore.Model.Chain
/-!
  Tie by translation: the functions of `/repo/x509` as *regenerated syntax trees*
  (`Generated/Ast/X509.lean`) mean, under `GoSem`, exactly what the hand-written model
  `Model/Chain.lean` computes — for every certificate, every extension list, every signing time,
  every chain.  An edit to one of these Go functions changes its tree; the theorem about it is then
  re-checked against the new tree and fails unless the edit preserves the meaning.
-/
namespace NotationCore.Tie.Code.X509
open NotationCore GoSem Chain Algorithm Generated.Ast

/-- one entry of `cert.Extensions`: the identity of its OID and its critical flag -/
def extV (e : Int × Bool) : Val := .obj [("Id", .int e.1), ("Critical", .bool e.2)]

/-- first extension with the given OID, as the model records it (`none` absent, `some critical`) -/
def findExt (oid : Int) : List (Int × Bool) → Option Bool
  | [] => none
  | e :: r => if e.1 == oid then some e.2 else findExt oid r

def oidKeyUsage : Int := 15
def oidExtKeyUsage : Int := 37

/-- The Go value of a parsed certificate, built from the model's record `c` and the certificate's
    extension list.  `keySpecOK` is not a field of `x509.Certificate`: it carries what
    `algorithm.ExtractKeySpec(cert)` answers (a primitive here; its table is tied in `C02`). -/
def certV (c : Cert) (exts : List (Int × Bool)) : Val := .obj [
  ("id", .int c.id), ("RawSubject", .int c.subject), ("RawIssuer", .int c.issuer), ("Subject", .opaque 0), ("Issuer", .opaque 1),
  ("NotBefore", .int c.notBefore), ("NotAfter", .int c.notAfter),
  ("BasicConstraintsValid", .bool c.bcValid), ("IsCA", .bool c.isCA),
  ("MaxPathLen", .int c.maxPathLen), ("MaxPathLenZero", .bool c.maxPathLenZero),
  ("KeyUsage", .int c.ku), ("Extensions", .list (exts.map extV)),
  ("ExtKeyUsage", .list (c.eku.map (fun e => .int (Int.ofNat e)))),
  ("UnknownExtKeyUsage", .list (List.replicate c.unknownEku (.opaque 2))),
  ("SignatureAlgorithm", .opaque 3), ("RawTBSCertificate", .opaque 4), ("Signature", .opaque 5),
  ("Version", .int (if c.v3 then 3 else 1)),
  ("keySpecOK", .bool (extractKeySpec c.key).isSome)]

/-- `*time.Time` -/
def optT : Option Int → Val
  | none => .nil
  | some t => .int t

/-- the error value a standard-library call hands back -/
def primErr : Val := .err "·prim" 0 []

def idOf (v : Val) : Nat := match field v "id" with
  | some (.int i) => i.toNat
  | _ => 0
def boolOf (v : Val) (f : String) : Bool := match field v f with
  | some (.bool b) => b
  | _ => false
def natOf (v : Val) (f : String) : Nat := match field v f with
  | some (.int i) => i.toNat
  | _ => 0

/-- crypto/x509 and internal/algorithm as the model assumes them (DESIGN §3): `CheckSignature` is
    the primitive `sigSelf`, `CheckSignatureFrom` is "parent may sign ∧ `sig`". -/
def prims (sig : Sig) (sigSelf : SigSelf) : Prims := fun name args =>
  match name, args with
  | "oid.KeyUsage", [] => some (.int oidKeyUsage)
  | "oid.ExtKeyUsage", [] => some (.int oidExtKeyUsage)
  | "CheckSignature", [c, _, _, _] => some (if sigSelf (idOf c) then .nil else primErr)
  | "CheckSignatureFrom", [c, p] =>
    let v3 := natOf p "Version" == 3
    let bc := boolOf p "BasicConstraintsValid"
    let ca := boolOf p "IsCA"
    let ku := natOf p "KeyUsage"
    some (if !(v3 && !bc || bc && !ca) && !(ku != 0 && !hasBit ku 32) && sig (idOf c) (idOf p) then .nil else primErr)
  | "algorithm.ExtractKeySpec", [c] => some (if boolOf c "keySpecOK" then .tuple [.opaque 6, .nil] else .tuple [.opaque 6, primErr])
  | _, _ => none

def funcs : List Func := [x509_validateSigningTime, x509_validateCABasicConstraints, x509_validateLeafBasicConstraints,
  x509_validateLeafKeyUsage, x509_validateSignatureAlgorithm, x509_isSelfSigned, x509_hasSelfSignature, x509_isIssuedBy,
  x509_validateCodeSigningKeyUsagePresent, x509_validateCodeSigningCAKeyUsage, x509_validateCodeSigningLeafKeyUsage,
  x509_validateCodeSigningExtendedKeyUsage, x509_validateCodeSigningCACertificate, x509_validateCodeSigningLeafCertificate,
  x509_ValidateCodeSigningCertChain,
  x509_validateTimestampingKeyUsagePresent, x509_validateTimestampingCAKeyUsage, x509_validateTimestampingLeafKeyUsage,
  x509_validateTimestampingExtendedKeyUsage, x509_validateTimestampingCACertificate, x509_validateTimestampingLeafCertificate,
  x509_ValidateTimestampingCertChain]

/-- meaning of a call into package x509, calls nesting at most `n` deep -/
notation "call[" sig ", " sigSelf "]" => sem (prims sig sigSelf) funcs

def chainFn : Purpose → String
  | .codeSigning => "ValidateCodeSigningCertChain"
  | .timestamping => "ValidateTimestampingCertChain"

/-- the Go error value each error class of the model stands for: (function, ordinal of the error
    constructor in that function's source, wrapped errors).  Hand-written expectation. -/
def site (p : Purpose) : Err → Val
  | .signingTime => .err "validateSigningTime" 0 []
  | .caBasicConstraints => .err "validateCABasicConstraints" 0 []
  | .caPathLen => .err "validateCABasicConstraints" 1 []
  | .leafBasicConstraints => .err "validateLeafBasicConstraints" 0 []
  | .kuNoDigitalSignature => .err "validateLeafKeyUsage" 0 []
  | .kuInvalid => .err "validateLeafKeyUsage" 1 []
  | .keySpec => .err "validateSignatureAlgorithm" 0 [primErr]
  | .kuNotCritical => .err "validateCodeSigningKeyUsagePresent" 0 []
  | .kuMissing => match p with
    | .codeSigning => .err "validateCodeSigningKeyUsagePresent" 1 []
    | .timestamping => .err "validateTimestampingKeyUsagePresent" 0 []
  | .caCertSign => match p with
    | .codeSigning => .err "validateCodeSigningCAKeyUsage" 0 []
    | .timestamping => .err "validateTimestampingCAKeyUsage" 0 []
  | .eku => match p with
    | .codeSigning => .err "validateCodeSigningExtendedKeyUsage" 0 []
    | .timestamping => .err "validateTimestampingExtendedKeyUsage" 0 []
  | .ekuNotCritical => .err "validateTimestampingExtendedKeyUsage" 1 []
  | .empty => .err (chainFn p) 0 []
  | .notSelfSigned1 => .err (chainFn p) 1 [primErr]
  | .notSelfIssued1 => .err (chainFn p) 2 []
  | .rootSigErr => .err (chainFn p) 4 [primErr]
  | .rootNotSelfSigned => .err (chainFn p) 5 []
  | .selfSignedLeaf => .err (chainFn p) 6 []
  | .selfSignedIntermediate => .err (chainFn p) 7 []
  | .issuedByErr => .err (chainFn p) 8 [primErr]
  | .notIssuedBy => .err (chainFn p) 9 []

/-- a model result as the Go `error` value -/
def errV (p : Purpose) : R → Val
  | .ok _ => .nil
  | .error e => site p e

/-! ### field access on a certificate value (so that `certV` stays folded in the proofs) -/
section fields
variable (c : Cert) (exts : List (Int × Bool))
@[simp] theorem f_id : field (certV c exts) "id" = some (.int c.id) := by simp [field, certV, fget]
@[simp] theorem f_rawSubject : field (certV c exts) "RawSubject" = some (.int c.subject) := by simp [field, certV, fget]
@[simp] theorem f_rawIssuer : field (certV c exts) "RawIssuer" = some (.int c.issuer) := by simp [field, certV, fget]
@[simp] theorem f_subject : field (certV c exts) "Subject" = some (.opaque 0) := by simp [field, certV, fget]
@[simp] theorem f_issuer : field (certV c exts) "Issuer" = some (.opaque 1) := by simp [field, certV, fget]
@[simp] theorem f_notBefore : field (certV c exts) "NotBefore" = some (.int c.notBefore) := by simp [field, certV, fget]
@[simp] theorem f_notAfter : field (certV c exts) "NotAfter" = some (.int c.notAfter) := by simp [field, certV, fget]
@[simp] theorem f_bc : field (certV c exts) "BasicConstraintsValid" = some (.bool c.bcValid) := by simp [field, certV, fget]
@[simp] theorem f_isCA : field (certV c exts) "IsCA" = some (.bool c.isCA) := by simp [field, certV, fget]
@[simp] theorem f_mpl : field (certV c exts) "MaxPathLen" = some (.int c.maxPathLen) := by simp [field, certV, fget]
@[simp] theorem f_mplz : field (certV c exts) "MaxPathLenZero" = some (.bool c.maxPathLenZero) := by simp [field, certV, fget]
@[simp] theorem f_ku : field (certV c exts) "KeyUsage" = some (.int c.ku) := by simp [field, certV, fget]
@[simp] theorem f_exts : field (certV c exts) "Extensions" = some (.list (exts.map extV)) := by simp [field, certV, fget]
@[simp] theorem f_eku : field (certV c exts) "ExtKeyUsage" = some (.list (c.eku.map (fun e => .int (Int.ofNat e)))) := by simp [field, certV, fget]
@[simp] theorem f_ueku : field (certV c exts) "UnknownExtKeyUsage" = some (.list (List.replicate c.unknownEku (.opaque 2))) := by simp [field, certV, fget]
@[simp] theorem f_sa : field (certV c exts) "SignatureAlgorithm" = some (.opaque 3) := by simp [field, certV, fget]
@[simp] theorem f_tbs : field (certV c exts) "RawTBSCertificate" = some (.opaque 4) := by simp [field, certV, fget]
@[simp] theorem f_sg : field (certV c exts) "Signature" = some (.opaque 5) := by simp [field, certV, fget]
@[simp] theorem f_ksok : field (certV c exts) "keySpecOK" = some (.bool (extractKeySpec c.key).isSome) := by simp [field, certV, fget]
@[simp] theorem f_version : field (certV c exts) "Version" = some (.int (if c.v3 then 3 else 1)) := by simp [field, certV, fget]
end fields


/-! ### lookup of each function in the package -/
theorem find_validateSigningTime : funcs.find? (fun f => f.name == "validateSigningTime") = some x509_validateSigningTime := by rfl
theorem find_validateCABasicConstraints : funcs.find? (fun f => f.name == "validateCABasicConstraints") = some x509_validateCABasicConstraints := by rfl
theorem find_validateLeafBasicConstraints : funcs.find? (fun f => f.name == "validateLeafBasicConstraints") = some x509_validateLeafBasicConstraints := by rfl
theorem find_validateLeafKeyUsage : funcs.find? (fun f => f.name == "validateLeafKeyUsage") = some x509_validateLeafKeyUsage := by rfl
theorem find_validateSignatureAlgorithm : funcs.find? (fun f => f.name == "validateSignatureAlgorithm") = some x509_validateSignatureAlgorithm := by rfl
theorem find_isSelfSigned : funcs.find? (fun f => f.name == "isSelfSigned") = some x509_isSelfSigned := by rfl
theorem find_hasSelfSignature : funcs.find? (fun f => f.name == "hasSelfSignature") = some x509_hasSelfSignature := by rfl
theorem find_isIssuedBy : funcs.find? (fun f => f.name == "isIssuedBy") = some x509_isIssuedBy := by rfl
theorem find_validateCodeSigningKeyUsagePresent : funcs.find? (fun f => f.name == "validateCodeSigningKeyUsagePresent") = some x509_validateCodeSigningKeyUsagePresent := by rfl
theorem find_validateCodeSigningCAKeyUsage : funcs.find? (fun f => f.name == "validateCodeSigningCAKeyUsage") = some x509_validateCodeSigningCAKeyUsage := by rfl
theorem find_validateCodeSigningLeafKeyUsage : funcs.find? (fun f => f.name == "validateCodeSigningLeafKeyUsage") = some x509_validateCodeSigningLeafKeyUsage := by rfl
theorem find_validateCodeSigningExtendedKeyUsage : funcs.find? (fun f => f.name == "validateCodeSigningExtendedKeyUsage") = some x509_validateCodeSigningExtendedKeyUsage := by rfl
theorem find_validateCodeSigningCACertificate : funcs.find? (fun f => f.name == "validateCodeSigningCACertificate") = some x509_validateCodeSigningCACertificate := by rfl
theorem find_validateCodeSigningLeafCertificate : funcs.find? (fun f => f.name == "validateCodeSigningLeafCertificate") = some x509_validateCodeSigningLeafCertificate := by rfl
theorem find_ValidateCodeSigningCertChain : funcs.find? (fun f => f.name == "ValidateCodeSigningCertChain") = some x509_ValidateCodeSigningCertChain := by rfl
theorem find_validateTimestampingKeyUsagePresent : funcs.find? (fun f => f.name == "validateTimestampingKeyUsagePresent") = some x509_validateTimestampingKeyUsagePresent := by rfl
theorem find_validateTimestampingCAKeyUsage : funcs.find? (fun f => f.name == "validateTimestampingCAKeyUsage") = some x509_validateTimestampingCAKeyUsage := by rfl
theorem find_validateTimestampingLeafKeyUsage : funcs.find? (fun f => f.name == "validateTimestampingLeafKeyUsage") = some x509_validateTimestampingLeafKeyUsage := by rfl
theorem find_validateTimestampingExtendedKeyUsage : funcs.find? (fun f => f.name == "validateTimestampingExtendedKeyUsage") = some x509_validateTimestampingExtendedKeyUsage := by rfl
theorem find_validateTimestampingCACertificate : funcs.find? (fun f => f.name == "validateTimestampingCACertificate") = some x509_validateTimestampingCACertificate := by rfl
theorem find_validateTimestampingLeafCertificate : funcs.find? (fun f => f.name == "validateTimestampingLeafCertificate") = some x509_validateTimestampingLeafCertificate := by rfl
theorem find_ValidateTimestampingCertChain : funcs.find? (fun f => f.name == "ValidateTimestampingCertChain") = some x509_ValidateTimestampingCertChain := by rfl

/-! ### the primitives on certificate values -/
section primlemmas
variable (sig : Sig) (sigSelf : SigSelf) (c p : Cert) (e e' : List (Int × Bool))
@[simp] theorem idOf_certV : idOf (certV c e) = c.id := by simp [idOf]
@[simp] theorem prim_oidKU : prims sig sigSelf "oid.KeyUsage" [] = some (.int 15) := rfl
@[simp] theorem prim_oidEKU : prims sig sigSelf "oid.ExtKeyUsage" [] = some (.int 37) := rfl
@[simp] theorem prim_checkSignature (a b d : Val) :
    prims sig sigSelf "CheckSignature" [certV c e, a, b, d] = some (if sigSelf c.id then .nil else primErr) := by
  simp [prims]
@[simp] theorem prim_checkSignatureFrom :
    prims sig sigSelf "CheckSignatureFrom" [certV c e, certV p e'] = some (if checkSignatureFrom sig c p then .nil else primErr) := by
  cases hv : p.v3 <;> simp [prims, natOf, boolOf, checkSignatureFrom, hv]
@[simp] theorem prim_extractKeySpec :
    prims sig sigSelf "algorithm.ExtractKeySpec" [certV c e]
      = some (if (extractKeySpec c.key).isSome then .tuple [.opaque 6, .nil] else .tuple [.opaque 6, primErr]) := by
  simp [prims, boolOf]
end primlemmas

/-! ### `cert.KeyUsage & bit` -/
theorem band_bit (ku k : Nat) : (ku &&& 2^k = 0) ↔ hasBit ku (2^k) = false := by
  unfold hasBit
  have hk : (ku / 2^k % 2 == 1) = ku.testBit k := by
    rw [Nat.testBit_eq_decide_div_mod_eq]; by_cases h : ku / 2^k % 2 = 1 <;> simp [h]
  rw [hk]
  constructor
  · intro h
    have := congrArg (fun x => x.testBit k) h
    simpa [Nat.testBit_and, Nat.testBit_two_pow_self] using this
  · intro h
    apply Nat.eq_of_testBit_eq
    intro i
    by_cases hi : k = i
    · subst hi; simp [h]
    · simp [hi]

/-- `cert.KeyUsage & bit == 0` for the bits the code tests -/
theorem band_dec (ku : Nat) (k : Nat) : decide ((Int.ofNat (ku &&& 2^k)) = 0) = !hasBit ku (2^k) := by
  have := band_bit ku k
  cases h : hasBit ku (2^k) <;> simp [h] at this ⊢ <;> omega

/-- the evaluation rules of the interpreter, as one simp set -/
macro "go_eval" "[" ts:Lean.Parser.Tactic.simpLemma,* "]" : tactic =>
  `(tactic| simp [run, pack, execBlock, exec, eval, evalArgs, sbindAll, sbind, sdefine, sassign, fset, sget, fget,
      spop, binop, builtin, Int.natCast_inj, $ts,*])

macro "go_eval_at" h:ident "[" ts:Lean.Parser.Tactic.simpLemma,* "]" : tactic =>
  `(tactic| simp [run, pack, execBlock, exec, eval, evalArgs, sbindAll, sbind, sdefine, sassign, fset, sget, fget,
      spop, binop, builtin, Int.natCast_inj, $ts,*] at $h:ident)

section
variable (sig : Sig) (sigSelf : SigSelf)

theorem validateSigningTime_eq (p : Purpose) (n : Nat) (c : Cert) (exts) (st : Option Int) :
    call[sig, sigSelf] (n + 1) "validateSigningTime" [certV c exts, optT st]
      = some (errV p (validateSigningTime c st)) := by
  rw [sem_succ, find_validateSigningTime]
  cases st with
  | none => go_eval [x509_validateSigningTime, optT, validateSigningTime, errV]
  | some t =>
    go_eval [x509_validateSigningTime, optT, validateSigningTime, errV]
    by_cases h1 : t < c.notBefore <;> by_cases h2 : c.notAfter < t <;> simp [h1, h2, site]


theorem validateCABasicConstraints_eq (p : Purpose) (n : Nat) (c : Cert) (exts) (k : Nat) :
    call[sig, sigSelf] (n + 1) "validateCABasicConstraints" [certV c exts, .int k]
      = some (errV p (validateCABasicConstraints c k)) := by
  rw [sem_succ, find_validateCABasicConstraints]
  cases hb : c.bcValid <;> cases hc : c.isCA <;> cases hz : c.maxPathLenZero <;>
    by_cases h1 : 0 < c.maxPathLen <;> by_cases h2 : c.maxPathLen = 0 <;> by_cases h3 : c.maxPathLen < (k : Int) <;>
    go_eval [x509_validateCABasicConstraints, validateCABasicConstraints, errV, site, hb, hc, hz, h1, h2, h3] <;> (try simp_all) <;> (try omega)

theorem validateLeafBasicConstraints_eq (p : Purpose) (n : Nat) (c : Cert) (exts) :
    call[sig, sigSelf] (n + 1) "validateLeafBasicConstraints" [certV c exts]
      = some (errV p (validateLeafBasicConstraints c)) := by
  rw [sem_succ, find_validateLeafBasicConstraints]
  cases hb : c.bcValid <;> cases hc : c.isCA <;>
    go_eval [x509_validateLeafBasicConstraints, validateLeafBasicConstraints, errV, site, hb, hc]


theorem validateSignatureAlgorithm_eq (p : Purpose) (n : Nat) (c : Cert) (exts) :
    call[sig, sigSelf] (n + 1) "validateSignatureAlgorithm" [certV c exts]
      = some (errV p (validateSignatureAlgorithm c)) := by
  rw [sem_succ, find_validateSignatureAlgorithm]
  cases h : extractKeySpec c.key <;>
    go_eval [x509_validateSignatureAlgorithm, validateSignatureAlgorithm, errV, site, h, primErr]

/-- `(bool, error)` as the model's `Except Unit Bool` -/
def issuedV : Except Unit Bool → Val
  | .error _ => .tuple [.bool false, primErr]
  | .ok b => .tuple [.bool b, .nil]

theorem isIssuedBy_eq (n : Nat) (c p : Cert) (e e') :
    call[sig, sigSelf] (n + 1) "isIssuedBy" [certV c e, certV p e'] = some (issuedV (isIssuedBy sig c p)) := by
  rw [sem_succ, find_isIssuedBy]
  cases h : checkSignatureFrom sig c p <;> by_cases h2 : p.subject = c.issuer <;>
    go_eval [x509_isIssuedBy, isIssuedBy, issuedV, h, h2, primErr]

theorem isSelfSigned_eq (n : Nat) (c : Cert) (e) :
    call[sig, sigSelf] (n + 2) "isSelfSigned" [certV c e] = some (issuedV (isIssuedBy sig c c)) := by
  rw [sem_succ, find_isSelfSigned]
  go_eval [x509_isSelfSigned, isIssuedBy_eq]
  cases isIssuedBy sig c c with
  | error u => simp [issuedV, prims]
  | ok b => cases b <;> simp [issuedV, prims]

theorem hasSelfSignature_eq (n : Nat) (c : Cert) (e) :
    call[sig, sigSelf] (n + 1) "hasSelfSignature" [certV c e] = some (.bool (selfSignedDirect sigSelf c)) := by
  rw [sem_succ, find_hasSelfSignature]
  cases h : sigSelf c.id <;> by_cases h2 : c.subject = c.issuer <;>
    go_eval [x509_hasSelfSignature, selfSignedDirect, h, h2, primErr]


/-! ### `for _, ext := range cert.Extensions` -/

def rangeBody : Stmt → List Stmt
  | .range _ _ _ b => b
  | _ => []

def csKuBody : List Stmt := rangeBody (x509_validateCodeSigningKeyUsagePresent.body.getD 1 (.opaque ""))

theorem csKuLoop (fn : String) (cal) (cv : Val) : ∀ (exts : List (Int × Bool)) (i : Nat),
    rangeLoop (fun st => execBlock ⟨fn, prims sig sigSelf, cal⟩ st csKuBody) "_" "v2" i (exts.map extV)
        [[("v1", .bool false), ("v0", cv)]]
      = match findExt oidKeyUsage exts with
        | none => .next [[("v1", .bool false), ("v0", cv)]]
        | some true => .next [[("v1", .bool true), ("v0", cv)]]
        | some false => .ret [.err fn 0 []] := by
  intro exts
  induction exts with
  | nil => intro i; simp [rangeLoop, findExt]
  | cons e r ih =>
    intro i
    obtain ⟨o, cr⟩ := e
    have step : (fun st => execBlock ⟨fn, prims sig sigSelf, cal⟩ st csKuBody)
          [[("v2", extV (o, cr))], [("v1", .bool false), ("v0", cv)]]
        = if o = 15 then (if cr then .brk [[("v2", extV (o, cr))], [("v1", .bool true), ("v0", cv)]]
                          else .ret [.err fn 0 []])
          else .next [[("v2", extV (o, cr))], [("v1", .bool false), ("v0", cv)]] := by
      by_cases ho : o = 15 <;> cases cr <;>
        simp [csKuBody, rangeBody, x509_validateCodeSigningKeyUsagePresent, extV, field,
          execBlock, exec, eval, evalArgs, sbindAll, sbind, sdefine, sassign, fset, sget, fget,
          spop, binop, builtin, ho]
    generalize (fun st => execBlock ⟨fn, prims sig sigSelf, cal⟩ st csKuBody) = F at ih step ⊢
    simp only [oidKeyUsage] at ih ⊢
    by_cases ho : o = 15
    · subst ho
      cases cr <;> simp at step <;> simp [rangeLoop, sbindAll, sbind, sdefine, fset, step, spop, findExt]
    · cases cr <;> simp [ho] at step <;> simp [rangeLoop, sbindAll, sbind, sdefine, fset, step, ho, spop, findExt, ih]

theorem validateCodeSigningKeyUsagePresent_eq (n : Nat) (c : Cert) (exts) :
    call[sig, sigSelf] (n + 1) "validateCodeSigningKeyUsagePresent" [certV c exts]
      = some (errV .codeSigning (csKeyUsagePresent { c with kuExt := findExt oidKeyUsage exts })) := by
  rw [sem_succ, find_validateCodeSigningKeyUsagePresent]
  have key := csKuLoop sig sigSelf "validateCodeSigningKeyUsagePresent" (sem (prims sig sigSelf) funcs n) (certV c exts) exts 0
  simp only [csKuBody, rangeBody, x509_validateCodeSigningKeyUsagePresent, List.getD_cons_succ, List.getD_cons_zero] at key
  go_eval_at key []
  cases h : findExt oidKeyUsage exts with
  | none => rw [h] at key; go_eval [x509_validateCodeSigningKeyUsagePresent, key, csKeyUsagePresent, errV, site]
  | some b => rw [h] at key; cases b <;> go_eval [x509_validateCodeSigningKeyUsagePresent, key, csKeyUsagePresent, errV, site]


theorem validateCodeSigningCAKeyUsage_eq (n : Nat) (c : Cert) (exts) :
    call[sig, sigSelf] (n + 2) "validateCodeSigningCAKeyUsage" [certV c exts]
      = some (errV .codeSigning (do csKeyUsagePresent { c with kuExt := findExt oidKeyUsage exts }; caCertSign .codeSigning c)) := by
  rw [sem_succ, find_validateCodeSigningCAKeyUsage]
  have hb := band_dec c.ku 5
  simp at hb
  have hcall := validateCodeSigningKeyUsagePresent_eq sig sigSelf n c exts
  cases h : findExt oidKeyUsage exts with
  | none =>
    simp [h, csKeyUsagePresent, errV, site] at hcall
    go_eval [x509_validateCodeSigningCAKeyUsage, hcall, h, errV, csKeyUsagePresent, site, prims, bind, Except.bind]
  | some b =>
    cases b <;> cases h5 : hasBit c.ku 32 <;> simp [h, csKeyUsagePresent, errV, site] at hcall <;>
      go_eval [x509_validateCodeSigningCAKeyUsage, hcall, h, errV, prims, hb, h5, csKeyUsagePresent,
        caCertSign, Generated.caRequiredKu, site, bind, Except.bind]


/-- the model's certificate record agrees with the extension list the code walks -/
def ExtsAgree (c : Cert) (exts : List (Int × Bool)) : Prop :=
  c.kuExt = findExt oidKeyUsage exts ∧ c.ekuExt = findExt oidExtKeyUsage exts

theorem withKu_eq (c : Cert) (exts) (h : ExtsAgree c exts) : { c with kuExt := findExt oidKeyUsage exts } = c := by
  cases c; simp [ExtsAgree] at h ⊢; exact h.1.symm

/-- `validateCodeSigningCACertificate(cert, expectedPathLen)` is the model's `caChecks` -/
theorem validateCodeSigningCACertificate_eq (n : Nat) (c : Cert) (exts) (h : ExtsAgree c exts) (k : Nat) :
    call[sig, sigSelf] (n + 3) "validateCodeSigningCACertificate" [certV c exts, .int k]
      = some (errV .codeSigning (caChecks .codeSigning c k)) := by
  rw [sem_succ, find_validateCodeSigningCACertificate]
  have h1 : call[sig, sigSelf] (n + 2) "validateCABasicConstraints" [certV c exts, .int k] = _ :=
    validateCABasicConstraints_eq sig sigSelf .codeSigning (n + 1) c exts k
  have h2 := validateCodeSigningCAKeyUsage_eq sig sigSelf n c exts
  rw [withKu_eq c exts h] at h2
  cases hr : validateCABasicConstraints c k with
  | error e =>
    rw [hr] at h1
    have he : e = .caBasicConstraints ∨ e = .caPathLen := by
      simp [validateCABasicConstraints] at hr
      split at hr <;> (try split at hr) <;> simp at hr <;> simp [← hr]
    rcases he with he | he <;> subst he <;> simp [errV, site] at h1 <;>
      go_eval [x509_validateCodeSigningCACertificate, h1, caChecks, hr, bind, Except.bind, prims, errV, site]
  | ok u =>
    rw [hr] at h1
    simp [errV] at h1
    have hR : caChecks .codeSigning c k = (do csKeyUsagePresent c; caCertSign .codeSigning c) := by
      simp [caChecks, hr, keyUsagePresent, bind, Except.bind]
    rw [hR]
    generalize (do csKeyUsagePresent c; caCertSign .codeSigning c : R) = X at h2 ⊢
    cases X with
    | ok u => simp [errV] at h2 ⊢; go_eval [x509_validateCodeSigningCACertificate, h1, h2, prims]
    | error e =>
      cases e <;> simp [errV, site] at h2 ⊢ <;> go_eval [x509_validateCodeSigningCACertificate, h1, h2, prims]


end
end NotationCore.Tie.Code.X509
