import NotationCore.Props.C14
import NotationCore.Tie.Code.X509TsWalk
/-!
  C14 stated about the code: the syntax tree of `ValidateTimestampingCertChain` and of its
  callees, regenerated from `/repo/x509` on every run, returns a nil error — under the semantics of
  `GoSem` and the crypto/x509 primitives of `Tie.Code.X509.prims` — exactly on the chains on which
  the model `validateTimestamping` returns `ok`, hence (theorem `C14`) exactly on the conforming
  TSA chains; and it always returns.
-/
namespace NotationCore.Props
open NotationCore GoSem Chain Spec Tie.Code.X509

/-- **C14 about the regenerated code** -/
theorem C14_code (sig : Sig) (sigSelf : SigSelf) (n : Nat) (chain : List CertX)
    (hag : ∀ x ∈ chain, ExtsAgree x.1 x.2) :
    sem (prims sig sigSelf) funcs (n + 4) "ValidateTimestampingCertChain" [.list (chain.map cvp)] = some .nil
      ↔ Conforms .timestamping sig sigSelf (chain.map (·.1)) none := by
  rw [ValidateTimestampingCertChain_accepts_iff sig sigSelf n chain hag]
  exact validate_iff _ _ _ _ _

theorem C14_code_total (sig : Sig) (sigSelf : SigSelf) (n : Nat) (chain : List CertX)
    (hag : ∀ x ∈ chain, ExtsAgree x.1 x.2) :
    ∃ v, sem (prims sig sigSelf) funcs (n + 4) "ValidateTimestampingCertChain" [.list (chain.map cvp)] = some v :=
  ⟨_, ValidateTimestampingCertChain_eq sig sigSelf n chain hag⟩

end NotationCore.Props
