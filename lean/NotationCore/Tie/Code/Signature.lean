import NotationCore.GoSem.Sem
import NotationCore.Generated.Ast.Signature
import NotationCore.Model.Trust
/-!
  Tie by translation, `signature/signer.go`: the regenerated syntax tree of `VerifyAuthenticity`
  — two nested `range` loops with a `return` from the inner one — means the model's
  `Trust.verifyAuthenticity`: the returned certificate is the first entry of the trust list that
  `Equal`s the leaf-most matching certificate of the chain, for every chain and every trust list
  (look-alikes included: `x509.Certificate.Equal` is equality of `Raw`, the primitive here).
-/
namespace NotationCore.Tie.Code.Signature
open NotationCore GoSem Trust Generated.Ast

/-- `*x509.Certificate`: its DER bytes and the look-alike metadata the code must not consult -/
def tcV (c : TCert) : Val := .obj [("Raw", .int c.raw), ("RawSubject", .int c.subject), ("PublicKey", .int c.key),
  ("SerialNumber", .int c.serial), ("RawIssuer", .int c.issuer)]

def rawOf (v : Val) : Int := match field v "Raw" with
  | some (.int i) => i
  | _ => 0

/-- crypto/x509: `(*Certificate).Equal` is `bytes.Equal(c.Raw, other.Raw)` -/
def prims : Prims := fun name args =>
  match name, args with
  | "Equal", [a, b] => some (.bool (decide (rawOf a = rawOf b)))
  | _, _ => none

@[simp] theorem rawOf_tcV (c : TCert) : rawOf (tcV c) = c.raw := by simp [rawOf, tcV, field, fget]
@[simp] theorem prim_equal (a b : TCert) : prims "Equal" [tcV a, tcV b] = some (.bool (decide (a.raw = b.raw))) := by
  simp [prims, Int.natCast_inj]
@[simp] theorem builtin_equal_tcV (a b : TCert) : builtin "Equal" [tcV a, tcV b] = none := rfl
@[simp] theorem flatten_tcV (c : TCert) : flatten [tcV c] = [tcV c] := rfl

/-- `*SignerInfo` -/
def siV : Option (List TCert) → Val
  | none => .nil
  | some cs => .obj [("CertificateChain", .list (cs.map tcV))]

def funcs : List Func := [signature_VerifyAuthenticity]

/-- the first trust-list entry equal to `c` -/
def firstEqual (c : TCert) (ts : List TCert) : Option TCert := ts.find? (fun t => t.raw == c.raw)
/-- leaf-most first: the first certificate of the chain with an equal trust-list entry decides -/
def firstTrusted (ts : List TCert) : List TCert → Option TCert
  | [] => none
  | c :: cs => match firstEqual c ts with
    | some t => some t
    | none => firstTrusted ts cs

def rangeBody : Stmt → List Stmt
  | .range _ _ _ b => b
  | _ => []
def outerBody : List Stmt := rangeBody (signature_VerifyAuthenticity.body.getD 2 (.opaque ""))
def innerBody : List Stmt := rangeBody (outerBody.getD 0 (.opaque ""))

def store0 (si : Val) (ts : List TCert) : Store := [[("v1", .list (ts.map tcV)), ("v0", si)]]

theorem innerLoop (fn : String) (cal) (si : Val) (ts0 : List TCert) (c : TCert) : ∀ (ts : List TCert) (i : Nat),
    rangeLoop (fun st => execBlock ⟨fn, prims, cal⟩ st innerBody) "_" "v3" i (ts.map tcV)
        ([("v2", tcV c)] :: store0 si ts0)
      = match firstEqual c ts with
        | some t => .ret [tcV t, .nil]
        | none => .next ([("v2", tcV c)] :: store0 si ts0) := by
  intro ts
  induction ts with
  | nil => intro i; simp [rangeLoop, firstEqual]
  | cons t r ih =>
    intro i
    have step : (fun st => execBlock ⟨fn, prims, cal⟩ st innerBody) ([("v3", tcV t)] :: [("v2", tcV c)] :: store0 si ts0)
        = if t.raw = c.raw then .ret [tcV t, .nil] else .next ([("v3", tcV t)] :: [("v2", tcV c)] :: store0 si ts0) := by
      by_cases h : t.raw = c.raw <;>
        simp [innerBody, outerBody, rangeBody, signature_VerifyAuthenticity, store0,
          execBlock, exec, eval, evalArgs, sbindAll, sbind, sdefine, fset, sget, fget, spop, h]
    generalize (fun st => execBlock ⟨fn, prims, cal⟩ st innerBody) = F at ih step ⊢
    by_cases h : t.raw = c.raw
    · simp [h] at step
      simp [rangeLoop, sbindAll, sbind, sdefine, fset, store0, firstEqual, h] at step ⊢
      simp [step]
    · simp [h] at step
      have ih' := ih (i + 1)
      simp [rangeLoop, sbindAll, sbind, sdefine, fset, store0, firstEqual, h, spop] at step ih' ⊢
      simp [step, ih']

theorem outerLoop (fn : String) (cal) (si : Val) (ts : List TCert) : ∀ (cs : List TCert) (i : Nat),
    rangeLoop (fun st => execBlock ⟨fn, prims, cal⟩ st outerBody) "_" "v2" i (cs.map tcV) (store0 si ts)
      = match firstTrusted ts cs with
        | some t => .ret [tcV t, .nil]
        | none => .next (store0 si ts) := by
  intro cs
  induction cs with
  | nil => intro i; simp [rangeLoop, firstTrusted]
  | cons c r ih =>
    intro i
    have inner := innerLoop fn cal si ts c ts 0
    have step : (fun st => execBlock ⟨fn, prims, cal⟩ st outerBody) ([("v2", tcV c)] :: store0 si ts)
        = match firstEqual c ts with
          | some t => .ret [tcV t, .nil]
          | none => .next ([("v2", tcV c)] :: store0 si ts) := by
      simp only [innerBody, outerBody, rangeBody, signature_VerifyAuthenticity, List.getD_cons_succ, List.getD_cons_zero] at inner ⊢
      simp [execBlock, exec, eval, evalArgs, sbindAll, sbind, sdefine, fset, sget, fget, spop, builtin, store0] at inner ⊢
      rw [inner]
      cases firstEqual c ts <;> simp
    generalize (fun st => execBlock ⟨fn, prims, cal⟩ st outerBody) = F at ih step ⊢
    cases hf : firstEqual c ts with
    | some t =>
      rw [hf] at step
      simp [rangeLoop, sbindAll, sbind, sdefine, fset, store0, firstTrusted, hf] at step ⊢
      simp [step]
    | none =>
      rw [hf] at step
      have ih' := ih (i + 1)
      simp [rangeLoop, sbindAll, sbind, sdefine, fset, store0, firstTrusted, hf, spop] at step ih' ⊢
      simp [step, ih']

/-- the value `VerifyAuthenticity` returns, in terms of `firstTrusted` -/
def resultV (chain : Option (List TCert)) (ts : List TCert) : Val :=
  if ts.isEmpty then .tuple [.nil, .err "VerifyAuthenticity" 0 []]
  else match chain with
    | none => .tuple [.nil, .err "VerifyAuthenticity" 1 []]
    | some cs => match firstTrusted ts cs with
      | some t => .tuple [tcV t, .nil]
      | none => .tuple [.nil, .err "VerifyAuthenticity" 2 []]

theorem VerifyAuthenticity_eq (n : Nat) (chain : Option (List TCert)) (ts : List TCert) :
    sem prims funcs (n + 1) "VerifyAuthenticity" [siV chain, .list (ts.map tcV)] = some (resultV chain ts) := by
  rw [sem_succ]
  have hfind : funcs.find? (fun f => f.name == "VerifyAuthenticity") = some signature_VerifyAuthenticity := rfl
  rw [hfind]
  unfold resultV
  cases ts with
  | nil =>
    simp [signature_VerifyAuthenticity, run, pack, execBlock, exec, eval, evalArgs, sbindAll, sbind, sdefine, fset, sget, fget,
      spop, binop, builtin]
  | cons t r =>
    have hl : ¬ ((r.length : Int) + 1 = 0) := by omega
    cases chain with
    | none =>
      simp [signature_VerifyAuthenticity, run, pack, execBlock, exec, eval, evalArgs, sbindAll, sbind, sdefine, fset, sget, fget,
        spop, binop, builtin, siV, hl]
    | some cs =>
      have key := outerLoop "VerifyAuthenticity" (sem prims funcs n) (siV (some cs)) (t :: r) cs 0
      simp only [outerBody, rangeBody, signature_VerifyAuthenticity, List.getD_cons_succ, List.getD_cons_zero, store0] at key
      simp [run, pack, execBlock, exec, eval, evalArgs, sbindAll, sbind, sdefine, fset, sget, fget, spop, binop, builtin, siV, field] at key
      cases hf : firstTrusted (t :: r) cs with
      | some x =>
        rw [hf] at key
        simp [signature_VerifyAuthenticity, run, pack, execBlock, exec, eval, evalArgs, sbindAll, sbind, sdefine, fset, sget, fget,
          spop, binop, builtin, siV, field, hl, key, hf]
      | none =>
        rw [hf] at key
        simp [signature_VerifyAuthenticity, run, pack, execBlock, exec, eval, evalArgs, sbindAll, sbind, sdefine, fset, sget, fget,
          spop, binop, builtin, siV, field, hl, key, hf]

/-! ### `firstTrusted` is what the model's index-returning loops compute -/

theorem findTrust_spec (c : TCert) : ∀ (ts : List TCert) (i : Nat),
    match findTrust c ts i with
    | some k => ∃ j, k = i + j ∧ ts[j]? = firstEqual c ts ∧ (firstEqual c ts).isSome
    | none => firstEqual c ts = none := by
  intro ts
  induction ts with
  | nil => intro i; simp [findTrust, firstEqual]
  | cons t r ih =>
    intro i
    by_cases h : t.raw = c.raw
    · simp [findTrust, firstEqual, h]
    · have := ih (i + 1)
      simp [findTrust, firstEqual, h] at this ⊢
      cases hf : findTrust c r (i + 1) with
      | none => simp [hf] at this ⊢; simpa [firstEqual] using this
      | some k =>
        simp [hf] at this ⊢
        obtain ⟨j, hk, hj, hs⟩ := this
        refine ⟨j + 1, by omega, ?_, ?_⟩
        · simpa [firstEqual] using hj
        · simpa [firstEqual] using hs

theorem scanChain_spec (ts : List TCert) : ∀ (cs : List TCert),
    match scanChain ts cs with
    | some k => ts[k]? = firstTrusted ts cs ∧ (firstTrusted ts cs).isSome
    | none => firstTrusted ts cs = none := by
  intro cs
  induction cs with
  | nil => simp [scanChain, firstTrusted]
  | cons c r ih =>
    have hf := findTrust_spec c ts 0
    cases h : findTrust c ts 0 with
    | some k =>
      rw [h] at hf
      obtain ⟨j, hk, hj, hs⟩ := hf
      have hkj : k = j := by omega
      subst hkj
      cases hfe : firstEqual c ts with
      | none => simp [hfe] at hs
      | some x => simp [scanChain, firstTrusted, h, hfe] at hj ⊢; exact hj
    | none =>
      rw [h] at hf
      simp [scanChain, firstTrusted, h, hf]
      exact ih

/-- **`VerifyAuthenticity`, as regenerated from the source, is the model's `verifyAuthenticity`**:
    where the model returns index `i` the code returns `trustedCerts[i]` and a nil error; where the
    model returns an error the code returns nil and the corresponding error. -/
theorem VerifyAuthenticity_model (n : Nat) (chain : Option (List TCert)) (ts : List TCert) :
    match verifyAuthenticity chain ts with
    | .ok i => ∃ t, ts[i]? = some t ∧
        sem prims funcs (n + 1) "VerifyAuthenticity" [siV chain, .list (ts.map tcV)] = some (.tuple [tcV t, .nil])
    | .error .invalidArgTrusted =>
        sem prims funcs (n + 1) "VerifyAuthenticity" [siV chain, .list (ts.map tcV)] = some (.tuple [.nil, .err "VerifyAuthenticity" 0 []])
    | .error .invalidArgSignerInfo =>
        sem prims funcs (n + 1) "VerifyAuthenticity" [siV chain, .list (ts.map tcV)] = some (.tuple [.nil, .err "VerifyAuthenticity" 1 []])
    | .error .authenticity =>
        sem prims funcs (n + 1) "VerifyAuthenticity" [siV chain, .list (ts.map tcV)] = some (.tuple [.nil, .err "VerifyAuthenticity" 2 []]) := by
  rw [VerifyAuthenticity_eq]
  unfold verifyAuthenticity resultV
  cases hts : ts.isEmpty
  · cases chain with
    | none => simp
    | some cs =>
      have hs := scanChain_spec ts cs
      cases hsc : scanChain ts cs with
      | none =>
        rw [hsc] at hs
        simp at hs
        simp [hsc, hs]
      | some k =>
        rw [hsc] at hs
        cases hft : firstTrusted ts cs with
        | none => simp [hft] at hs
        | some x =>
          simp [hft] at hs
          simp [hsc, hft]
          exact ⟨x, hs, rfl⟩
  · simp

/-! ### `SignerInfo.AuthenticSigningTime` and `SignerInfo.ExtendedAttribute` -/

def afuncs : List Func := [signature_SignerInfo_AuthenticSigningTime, signature_SignerInfo_ExtendedAttribute]

def noPrims : Prims := fun _ _ => none

def signerInfoV (scheme : String) (st : Int) (attrs : List Val) : Val :=
  .obj [("SignedAttributes", .obj [("SigningScheme", .str scheme), ("SigningTime", .int st), ("ExtendedAttributes", .list attrs)])]

/-- an authentic signing time exists exactly under the signing-authority scheme with a non-zero
    signing time, and then it is that signing time — whatever else the signer info carries -/
theorem AuthenticSigningTime_eq (n : Nat) (scheme : String) (st : Int) (attrs : List Val) :
    sem noPrims afuncs (n + 1) "SignerInfo.AuthenticSigningTime" [signerInfoV scheme st attrs]
      = some (match Trust.authenticSigningTime (scheme == "notary.x509.signingAuthority") st with
          | some t => .tuple [.int t, .nil]
          | none => if scheme = "notary.x509.signingAuthority"
              then .tuple [.int (-62135596800000000000), .err "SignerInfo.AuthenticSigningTime" 0 []]
              else .tuple [.int (-62135596800000000000), .err "SignerInfo.AuthenticSigningTime" 1 []]) := by
  rw [sem_succ]
  have hfind : afuncs.find? (fun f => f.name == "SignerInfo.AuthenticSigningTime") = some signature_SignerInfo_AuthenticSigningTime := rfl
  rw [hfind]
  by_cases hs : scheme = "notary.x509.signingAuthority" <;> by_cases hz : st = -62135596800000000000 <;>
    simp [signature_SignerInfo_AuthenticSigningTime, run, pack, execBlock, exec, eval, evalArgs, sbindAll, sbind, sdefine, fset, sget, fget,
      spop, binop, builtin, field, signerInfoV, Trust.authenticSigningTime, isZeroT, zeroT, hs, hz]

/-- an attribute of the list -/
def attrV (key : String) (crit : Bool) (tok : Nat) : Val := .obj [("Key", .str key), ("Critical", .bool crit), ("Value", .opaque tok)]

def attrBody : List Stmt := rangeBody (signature_SignerInfo_ExtendedAttribute.body.getD 0 (.opaque ""))

/-- text-keyed attributes: `ExtendedAttribute(key)` returns the first entry of the list with that
    key, and an error when there is none (the lookup clause of C13) -/
theorem attrLoop (fn : String) (cal) (S : Store) (k : String) : ∀ (as : List (String × Bool × Nat)) (i : Nat),
    S = [[("v1", .str k), ("v0", S0)]] →
    rangeLoop (fun st => execBlock ⟨fn, noPrims, cal⟩ st attrBody) "_" "v2" i (as.map (fun a => attrV a.1 a.2.1 a.2.2)) S
      = match as.find? (fun a => a.1 == k) with
        | some a => .ret [attrV a.1 a.2.1 a.2.2, .nil]
        | none => .next S := by
  intro as
  induction as with
  | nil => intro i _; simp [rangeLoop]
  | cons a r ih =>
    intro i hS
    subst hS
    obtain ⟨ak, ac, at_⟩ := a
    have step : (fun st => execBlock ⟨fn, noPrims, cal⟩ st attrBody) ([("v2", attrV ak ac at_)] :: [[("v1", .str k), ("v0", S0)]])
        = if ak = k then .ret [attrV ak ac at_, .nil] else .next ([("v2", attrV ak ac at_)] :: [[("v1", .str k), ("v0", S0)]]) := by
      by_cases h : ak = k <;>
        simp [attrBody, rangeBody, signature_SignerInfo_ExtendedAttribute, attrV, field, execBlock, exec, eval, evalArgs, sbindAll, sbind,
          sdefine, fset, sget, fget, spop, binop, noPrims, h]
    generalize (fun st => execBlock ⟨fn, noPrims, cal⟩ st attrBody) = F at ih step ⊢
    have ih' := ih (i + 1) rfl
    by_cases h : ak = k
    · simp [h] at step
      simp [rangeLoop, sbindAll, sbind, sdefine, fset, h] at step ⊢
      simp [step]
    · simp [h] at step
      simp [rangeLoop, sbindAll, sbind, sdefine, fset, spop, h] at step ih' ⊢
      simp [step, ih']

@[simp] theorem flatten_attrV (k : String) (c : Bool) (t : Nat) : flatten [attrV k c t] = [attrV k c t] := rfl

/-- `ExtendedAttribute(key)`: the first attribute of the list with that text key, or the
    zero `Attribute` and an error -/
theorem ExtendedAttribute_eq (n : Nat) (scheme : String) (st : Int) (as : List (String × Bool × Nat)) (k : String) :
    sem noPrims afuncs (n + 1) "SignerInfo.ExtendedAttribute"
        [signerInfoV scheme st (as.map (fun a => attrV a.1 a.2.1 a.2.2)), .str k]
      = some (match as.find? (fun a => a.1 == k) with
          | some a => .tuple [attrV a.1 a.2.1 a.2.2, .nil]
          | none => .tuple [.obj [], .err "SignerInfo.ExtendedAttribute" 0 []]) := by
  rw [sem_succ]
  have hfind : afuncs.find? (fun f => f.name == "SignerInfo.ExtendedAttribute") = some signature_SignerInfo_ExtendedAttribute := rfl
  rw [hfind]
  have key := attrLoop (S0 := signerInfoV scheme st (as.map (fun a => attrV a.1 a.2.1 a.2.2)))
    "SignerInfo.ExtendedAttribute" (sem noPrims afuncs n) _ k as 0 rfl
  simp only [attrBody, rangeBody, signature_SignerInfo_ExtendedAttribute, List.getD_cons_succ, List.getD_cons_zero] at key
  simp [run, pack, execBlock, exec, eval, evalArgs, sbindAll, sbind, sdefine, fset, sget, fget, spop, binop, builtin, field,
    signerInfoV, noPrims] at key
  cases hf : as.find? (fun a => a.1 == k) with
  | none =>
    rw [hf] at key
    simp [signature_SignerInfo_ExtendedAttribute, run, pack, execBlock, exec, eval, evalArgs, sbindAll, sbind, sdefine, fset, sget, fget,
      spop, binop, builtin, field, signerInfoV, noPrims, key]
  | some a =>
    rw [hf] at key
    simp [signature_SignerInfo_ExtendedAttribute, run, pack, execBlock, exec, eval, evalArgs, sbindAll, sbind, sdefine, fset, sget, fget,
      spop, binop, builtin, field, signerInfoV, noPrims, key]

end NotationCore.Tie.Code.Signature
