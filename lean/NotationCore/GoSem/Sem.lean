import NotationCore.GoSem.Syntax
/-!
  Meaning of the embedded Go subset (`GoSem.Syntax`): a big-step interpreter, total, structurally
  recursive on the syntax.  `none` / `Flow.stuck` stands for everything the subset does not give a
  meaning to — a run-time panic (nil dereference, index out of range), an unsupported construct
  (`.opaque`), an ill-typed operation — so a tie theorem `run … = some …` also says that none of
  these happens on the inputs it quantifies over.

  Block scoping follows Go: the store is a stack of frames, `:=` declares in the innermost frame
  (or re-assigns a variable already declared there), `=` assigns to the innermost declaration.
  Calls to the standard library and to other packages are `Env.prims` (parameters of the tie
  theorems, with the contract the model assumes); calls to functions of the same package are
  `Env.callee`, instantiated with the meaning already established for them.
-/
set_option linter.unusedVariables false
namespace NotationCore.GoSem

inductive Val where
  | bool : Bool → Val
  | int : Int → Val
  | str : String → Val
  | nil : Val
  | err : String → Nat → List Val → Val     -- created in function, site ordinal, arguments
  | obj : List (String × Val) → Val
  | list : List Val → Val
  | tuple : List Val → Val
  | opaque : Nat → Val
deriving Repr

abbrev Frame := List (String × Val)
abbrev Store := List Frame

def fget (f : Frame) (n : String) : Option Val :=
  match f with
  | [] => none
  | (k, v) :: r => if k == n then some v else fget r n

def fset (f : Frame) (n : String) (v : Val) : Option Frame :=
  match f with
  | [] => none
  | (k, w) :: r => if k == n then some ((k, v) :: r) else (fset r n v).map ((k, w) :: ·)

def sget (s : Store) (n : String) : Option Val :=
  match s with
  | [] => none
  | f :: r => match fget f n with
    | some v => some v
    | none => sget r n

/-- `x = v` : innermost frame that declares x -/
def sassign (s : Store) (n : String) (v : Val) : Option Store :=
  match s with
  | [] => none
  | f :: r => match fset f n v with
    | some f' => some (f' :: r)
    | none => (sassign r n v).map (f :: ·)

/-- `x := v` : redeclare in the top frame if there, else add to it -/
def sdefine (s : Store) (n : String) (v : Val) : Option Store :=
  match s with
  | [] => none
  | f :: r => match fset f n v with
    | some f' => some (f' :: r)
    | none => some (((n, v) :: f) :: r)

def sbind (s : Store) (define : Bool) (n : String) (v : Val) : Option Store :=
  if n == "_" then some s else if define then sdefine s n v else sassign s n v

def sbindAll (s : Store) (define : Bool) : List String → List Val → Option Store
  | [], [] => some s
  | n :: ns, v :: vs => match sbind s define n v with
    | some s' => sbindAll s' define ns vs
    | none => none
  | _, _ => none

def spop (s : Store) : Store := s.drop 1

/-- primitives supplied by the environment of a theorem: name, receiver-first arguments -/
abbrev Prims := String → List Val → Option Val

structure Env where
  fname : String                          -- function being run (for error sites)
  prims : Prims
  callee : String → List Val → Option Val -- meaning of calls to other functions of the repository

def valEq : Val → Val → Option Bool
  | .bool a, .bool b => some (decide (a = b))
  | .int a, .int b => some (decide (a = b))
  | .str a, .str b => some (decide (a = b))
  | .nil, .nil => some true
  | .nil, .err _ _ _ => some false
  | .err _ _ _, .nil => some false
  | .nil, .int _ => some false      -- pointer to a value against nil
  | .int _, .nil => some false
  | .nil, .obj _ => some false
  | .obj _, .nil => some false
  | _, _ => none

section valEqLemmas
variable (a b : Bool) (i j : Int) (s t : String) (f : String) (k : Nat) (w : List Val) (fs : List (String × Val))
@[simp] theorem valEq_bool : valEq (.bool a) (.bool b) = some (decide (a = b)) := rfl
@[simp] theorem valEq_int : valEq (.int i) (.int j) = some (decide (i = j)) := rfl
@[simp] theorem valEq_str : valEq (.str s) (.str t) = some (decide (s = t)) := rfl
@[simp] theorem valEq_nil_nil : valEq .nil .nil = some true := rfl
@[simp] theorem valEq_nil_err : valEq .nil (.err f k w) = some false := rfl
@[simp] theorem valEq_err_nil : valEq (.err f k w) .nil = some false := rfl
@[simp] theorem valEq_nil_int : valEq .nil (.int i) = some false := rfl
@[simp] theorem valEq_int_nil : valEq (.int i) .nil = some false := rfl
@[simp] theorem valEq_nil_obj : valEq .nil (.obj fs) = some false := rfl
@[simp] theorem valEq_obj_nil : valEq (.obj fs) .nil = some false := rfl
end valEqLemmas

def binop (op : BinOp) (a b : Val) : Option Val :=
  match op, a, b with
  | .eq, a, b => (valEq a b).map .bool
  | .ne, a, b => (valEq a b).map (fun x => .bool (!x))
  | .lt, .int a, .int b => some (.bool (a < b))
  | .le, .int a, .int b => some (.bool (a ≤ b))
  | .gt, .int a, .int b => some (.bool (a > b))
  | .ge, .int a, .int b => some (.bool (a ≥ b))
  | .add, .int a, .int b => some (.int (a + b))
  | .sub, .int a, .int b => some (.int (a - b))
  | .band, .int a, .int b => some (.int (Int.ofNat (a.toNat &&& b.toNat)))
  | _, _, _ => none

/-- methods and package functions whose meaning is fixed (Go standard library, value level) -/
def builtin (name : String) (args : List Val) : Option Val :=
  match name, args with
  | "Before", [.int a, .int b] => some (.bool (a < b))
  | "After", [.int a, .int b] => some (.bool (a > b))
  | "Equal", [.int a, .int b] => some (.bool (decide (a = b)))
  | "IsZero", [.int a] => some (.bool (decide (a = -62135596800 * 1000000000)))
  | "bytes.Equal", [.int a, .int b] => some (.bool (decide (a = b)))
  | "len", [.list l] => some (.int l.length)
  | "append", [.list l, v] => some (.list (l ++ [v]))
  | "mklist", vs => some (.list vs)
  | "mkobj", [] => some (.obj [])
  | "slice", [.list l, .int lo, .nil] => if lo < 0 ∨ lo.toNat > l.length then none else some (.list (l.drop lo.toNat))
  | "slice", [.list l, .int lo, .int hi] =>
    if lo < 0 ∨ hi < lo ∨ hi.toNat > l.length then none else some (.list ((l.take hi.toNat).drop lo.toNat))
  | _, _ => none

/-- `v.f` -/
def field (v : Val) (f : String) : Option Val :=
  match v with
  | .obj fs => fget fs f
  | _ => none

/-- several results are passed around as one tuple value -/
def pack : List Val → Val
  | [v] => v
  | vs => .tuple vs

/-- a single multi-valued call on the right of `:=` / after `return` spreads into its values -/
def flatten : List Val → List Val
  | [.tuple ws] => ws
  | vs => vs

@[simp] theorem flatten_nil : flatten [] = [] := rfl
@[simp] theorem flatten_two (a b : Val) (l : List Val) : flatten (a :: b :: l) = a :: b :: l := by
  cases a <;> rfl
@[simp] theorem flatten_tuple (ws : List Val) : flatten [.tuple ws] = ws := rfl
@[simp] theorem flatten_bool (b : Bool) : flatten [.bool b] = [.bool b] := rfl
@[simp] theorem flatten_int (i : Int) : flatten [.int i] = [.int i] := rfl
@[simp] theorem flatten_str (s : String) : flatten [.str s] = [.str s] := rfl
@[simp] theorem flatten_vnil : flatten [.nil] = [.nil] := rfl
@[simp] theorem flatten_err (f : String) (k : Nat) (w : List Val) : flatten [.err f k w] = [.err f k w] := rfl
@[simp] theorem flatten_obj (fs : List (String × Val)) : flatten [.obj fs] = [.obj fs] := rfl
@[simp] theorem flatten_list (l : List Val) : flatten [.list l] = [.list l] := rfl
@[simp] theorem flatten_opaque (n : Nat) : flatten [.opaque n] = [.opaque n] := rfl

mutual
def eval (env : Env) (s : Store) : Expr → Option Val
  | .ident n => match sget s n with
    | some v => some v
    | none => env.prims n []     -- package-level variables
  | .int i => some (.int i)
  | .str x => some (.str x)
  | .nil => some .nil
  | .bool b => some (.bool b)
  | .emptyList => some (.list [])
  | .sel e f => match eval env s e with
    | some v => field v f
    | none => none
  | .call f args => match evalArgs env s args with
    | some vs => (match builtin f vs with
      | some v => some v
      | none => match env.prims f vs with
        | some v => some v
        | none => env.callee f vs)
    | none => none
  | .mcall r m args => match eval env s r, evalArgs env s args with
    | some rv, some vs => (match builtin m (rv :: vs) with
      | some v => some v
      | none => env.prims m (rv :: vs))
    | _, _ => none
  | .mkErr k args => match evalArgs env s args with
    | some vs => some (.err env.fname k vs)
    | none => none
  | .un op e => match op, eval env s e with
    | .not, some (.bool b) => some (.bool (!b))
    | .neg, some (.int i) => some (.int (-i))
    | .addr, some v => some v
    | .deref, some .nil => none
    | .deref, some v => some v
    | _, _ => none
  | .bin .and a b => match eval env s a with
    | some (.bool false) => some (.bool false)
    | some (.bool true) => (match eval env s b with
      | some (.bool y) => some (.bool y)
      | _ => none)
    | _ => none
  | .bin .or a b => match eval env s a with
    | some (.bool true) => some (.bool true)
    | some (.bool false) => (match eval env s b with
      | some (.bool y) => some (.bool y)
      | _ => none)
    | _ => none
  | .bin op a b => match eval env s a, eval env s b with
    | some x, some y => binop op x y
    | _, _ => none
  | .index e i => match eval env s e, eval env s i with
    | some (.list l), some (.int k) => if k < 0 then none else l[k.toNat]?
    | _, _ => none
  | .opaque _ => none
def evalArgs (env : Env) (s : Store) : List Expr → Option (List Val)
  | [] => some []
  | e :: es => match eval env s e, evalArgs env s es with
    | some v, some vs => some (v :: vs)
    | _, _ => none
end

inductive Flow where
  | next : Store → Flow
  | ret : List Val → Flow
  | brk : Store → Flow
  | cont : Store → Flow
  | stuck : Flow

/-- `for k, v := range items` given the meaning of one pass through the body -/
def rangeLoop (body : Store → Flow) (k v : String) : Nat → List Val → Store → Flow
  | _, [], s => .next s
  | i, x :: xs, s =>
    match sbindAll (([] : Frame) :: s) true [k, v] [.int i, x] with
    | none => .stuck
    | some s1 => match body s1 with
      | .next s2 => rangeLoop body k v (i + 1) xs (spop s2)
      | .cont s2 => rangeLoop body k v (i + 1) xs (spop s2)
      | .brk s2 => .next (spop s2)
      | .ret vs => .ret vs
      | .stuck => .stuck

mutual
def exec (env : Env) (s : Store) : Stmt → Flow
  | .ret es => match evalArgs env s es with
    | some vs => .ret (flatten vs)       -- `return f(x)` with a multi-valued f
    | none => .stuck
  | .ifs ini c t e =>
    match execBlock env (([] : Frame) :: s) ini with   -- scope of the if statement
    | .next s1 => (match eval env s1 c with
      | some (.bool true) => (match execBlock env (([] : Frame) :: s1) t with
        | .next s2 => .next (spop (spop s2))
        | .brk s2 => .brk (spop (spop s2))
        | .cont s2 => .cont (spop (spop s2))
        | f => f)
      | some (.bool false) => (match execBlock env (([] : Frame) :: s1) e with
        | .next s2 => .next (spop (spop s2))
        | .brk s2 => .brk (spop (spop s2))
        | .cont s2 => .cont (spop (spop s2))
        | f => f)
      | _ => .stuck)
    | _ => .stuck
  | .assign d ns es => match evalArgs env s es with
    | some vs => (match sbindAll s d ns (flatten vs) with     -- `a, b := f(x)`
      | some s' => .next s'
      | none => .stuck)
    | none => .stuck
  | .range k v e body => match eval env s e with
    | some (.list items) => rangeLoop (fun st => execBlock env st body) k v 0 items s
    | _ => .stuck
  | .brk => .brk s
  | .cont => .cont s
  | .expr e => match eval env s e with
    | some _ => .next s
    | none => .stuck
  | .opaque _ => .stuck
def execBlock (env : Env) (s : Store) : List Stmt → Flow
  | [] => .next s
  | st :: rest => match exec env s st with
    | .next s' => execBlock env s' rest
    | f => f
end

/-- a call: parameters bound in a fresh store; falling off the end returns nothing -/
def run (env : Env) (f : Func) (args : List Val) : Option (List Val) :=
  match sbindAll [[]] true f.params args with
  | none => none
  | some s => match execBlock { env with fname := f.name } s f.body with
    | .ret vs => some vs
    | .next _ => some []
    | _ => none

/-- the functions of one package, each given the meaning of the others: `sem prims fs n name args`
    is the result of calling `name` when calls may nest `n` deep (the call graph of the modelled
    packages has no cycle, so a fixed depth per function suffices) -/
def sem (prims : Prims) (fs : List Func) : Nat → String → List Val → Option Val
  | 0, _, _ => none
  | n + 1, name, args =>
    match fs.find? (fun f => f.name == name) with
    | some f => (run { fname := name, prims := prims, callee := sem prims fs n } f args).map pack
    | none => none

theorem sem_succ (prims : Prims) (fs : List Func) (n : Nat) (name : String) (args : List Val) :
    sem prims fs (n + 1) name args =
      match fs.find? (fun f => f.name == name) with
      | some f => (run { fname := name, prims := prims, callee := sem prims fs n } f args).map pack
      | none => none := rfl

end NotationCore.GoSem
