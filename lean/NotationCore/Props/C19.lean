import NotationCore.Model.Trust
/-!
  C19 — trust is established only by an exact certificate match, leaf-most first.
-/
namespace NotationCore.Props
open NotationCore Trust

theorem findTrust_some {c : TCert} {ts : List TCert} {i k : Nat} (h : findTrust c ts i = some k) :
    ∃ j, k = i + j ∧ ∃ (hj : j < ts.length), ts[j].raw = c.raw ∧ ∀ m (hm : m < j), (ts[m]'(by omega)).raw ≠ c.raw := by
  induction ts generalizing i with
  | nil => simp [findTrust] at h
  | cons t ts ih =>
    simp only [findTrust] at h
    by_cases ht : (t.raw == c.raw) = true
    · simp only [ht, if_true, Option.some.injEq] at h
      refine ⟨0, by omega, by simp, by simpa using ht, ?_⟩
      intro m hm; omega
    · simp only [ht, Bool.false_eq_true, if_false] at h
      obtain ⟨j, hk, hj, hr, hmin⟩ := ih h
      refine ⟨j + 1, by omega, by simp; omega, by simpa using hr, ?_⟩
      intro m hm
      cases m with
      | zero => simpa using ht
      | succ m => simpa using hmin m (by omega)

theorem findTrust_none {c : TCert} {ts : List TCert} {i : Nat} (h : findTrust c ts i = none) :
    ∀ t ∈ ts, t.raw ≠ c.raw := by
  induction ts generalizing i with
  | nil => simp
  | cons t ts ih =>
    simp only [findTrust] at h
    by_cases ht : (t.raw == c.raw) = true
    · simp [ht] at h
    · simp only [ht, Bool.false_eq_true, if_false] at h
      intro x hx
      rcases List.mem_cons.mp hx with rfl | hx
      · simpa using ht
      · exact ih h x hx

theorem findTrust_isSome_iff (c : TCert) (ts : List TCert) (i : Nat) :
    (findTrust c ts i).isSome = true ↔ c.raw ∈ ts.map (·.raw) := by
  constructor
  · intro h
    cases hf : findTrust c ts i with
    | none => rw [hf] at h; cases h
    | some k =>
      obtain ⟨j, _, hj, hr, _⟩ := findTrust_some hf
      exact List.mem_map.mpr ⟨ts[j], List.getElem_mem hj, hr⟩
  · intro h
    cases hf : findTrust c ts i with
    | some k => rfl
    | none =>
      obtain ⟨t, ht, hr⟩ := List.mem_map.mp h
      exact absurd hr (findTrust_none hf t ht)

/-- complete description of the scan: the result is the index of the first trust entry equal to
    the first (leaf-most) chain certificate that has an equal in the trust list -/
theorem scanChain_spec (trusted : List TCert) (cs : List TCert) :
    (∀ k, scanChain trusted cs = some k →
      ∃ (pos : Nat) (hp : pos < cs.length) (hk : k < trusted.length),
        trusted[k].raw = cs[pos].raw ∧
        (∀ m (hm : m < k), (trusted[m]'(by omega)).raw ≠ cs[pos].raw) ∧
        (∀ q (hq : q < pos), (cs[q]'(by omega)).raw ∉ trusted.map (·.raw))) ∧
    (scanChain trusted cs = none → ∀ c ∈ cs, c.raw ∉ trusted.map (·.raw)) := by
  induction cs with
  | nil => simp [scanChain]
  | cons c cs ih =>
    simp only [scanChain]
    cases hf : findTrust c trusted 0 with
    | some i =>
      simp only []
      refine ⟨?_, by simp⟩
      intro k hk
      simp only [Option.some.injEq] at hk
      subst hk
      obtain ⟨j, hij, hj, hr, hmin⟩ := findTrust_some hf
      have : i = j := by omega
      subst this
      refine ⟨0, by simp, hj, by simpa using hr, ?_, ?_⟩
      · intro m hm; simpa using hmin m hm
      · intro q hq; omega
    | none =>
      simp only []
      have hnone : c.raw ∉ trusted.map (·.raw) := by
        intro hm
        have := (findTrust_isSome_iff c trusted 0).mpr hm
        rw [hf] at this; cases this
      refine ⟨?_, ?_⟩
      · intro k hk
        obtain ⟨pos, hp, hkk, h1, h2, h3⟩ := ih.1 k hk
        refine ⟨pos + 1, by simp; omega, hkk, by simpa using h1, ?_, ?_⟩
        · intro m hm; simpa using h2 m hm
        · intro q hq
          cases q with
          | zero => simpa using hnone
          | succ q => simpa using h3 q (by omega)
      · intro h x hx
        rcases List.mem_cons.mp hx with rfl | hx
        · exact hnone
        · exact ih.2 h x hx

/-- **C19 (iff)**: with a non-empty trust list and signer info present, a certificate is returned
    iff some chain certificate is byte-for-byte identical to a trust-list certificate -/
theorem C19_iff (cs trusted : List TCert) (hne : trusted ≠ []) :
    (∃ k, verifyAuthenticity (some cs) trusted = .ok k) ↔ ∃ c ∈ cs, c.raw ∈ trusted.map (·.raw) := by
  unfold verifyAuthenticity
  have he : trusted.isEmpty = false := by cases trusted <;> simp_all
  simp only [he, Bool.false_eq_true, if_false]
  have S := scanChain_spec trusted cs
  cases hs : scanChain trusted cs with
  | some k =>
    simp only [Except.ok.injEq, exists_eq', true_iff]
    obtain ⟨pos, hp, hk, h1, _, _⟩ := S.1 k hs
    exact ⟨cs[pos], List.getElem_mem hp, List.mem_map.mpr ⟨trusted[k], List.getElem_mem hk, h1⟩⟩
  | none =>
    simp only [reduceCtorEq, exists_false, false_iff, not_exists, not_and]
    exact S.2 hs

/-- **C19 (which)**: the certificate returned is the first trust-list entry equal to the first
    chain certificate (leaf to root) that has an equal in the trust list -/
theorem C19_which (cs trusted : List TCert) (k : Nat) (h : verifyAuthenticity (some cs) trusted = .ok k) :
    ∃ (pos : Nat) (hp : pos < cs.length) (hk : k < trusted.length),
      trusted[k].raw = cs[pos].raw ∧
      (∀ m (hm : m < k), (trusted[m]'(by omega)).raw ≠ cs[pos].raw) ∧
      (∀ q (hq : q < pos), (cs[q]'(by omega)).raw ∉ trusted.map (·.raw)) := by
  unfold verifyAuthenticity at h
  by_cases he : trusted.isEmpty = true
  · simp [he] at h
  · simp only [he, Bool.false_eq_true, if_false] at h
    cases hs : scanChain trusted cs with
    | none => rw [hs] at h; cases h
    | some i =>
      rw [hs] at h
      simp only [Except.ok.injEq] at h
      subst h
      exact (scanChain_spec trusted cs).1 i hs

/-- look-alike metadata is irrelevant: the verdict depends on certificates only through `raw` -/
theorem C19_lookalike_irrelevant (cs cs' trusted trusted' : List TCert)
    (h1 : cs.map (·.raw) = cs'.map (·.raw)) (h2 : trusted.map (·.raw) = trusted'.map (·.raw)) :
    verifyAuthenticity (some cs) trusted = verifyAuthenticity (some cs') trusted' := by
  have hfind : ∀ (c c' : TCert) (ts ts' : List TCert) (i : Nat), c.raw = c'.raw → ts.map (·.raw) = ts'.map (·.raw) →
      findTrust c ts i = findTrust c' ts' i := by
    intro c c' ts
    induction ts with
    | nil => intro ts' i _ h; cases ts' <;> simp_all [findTrust]
    | cons t ts ih =>
      intro ts' i hc h
      cases ts' with
      | nil => simp at h
      | cons t' ts' =>
        simp only [List.map_cons, List.cons.injEq] at h
        simp only [findTrust, h.1, hc]
        split
        · rfl
        · exact ih ts' (i + 1) hc h.2
  have hscan : ∀ (cs cs' : List TCert), cs.map (·.raw) = cs'.map (·.raw) → scanChain trusted cs = scanChain trusted' cs' := by
    intro cs
    induction cs with
    | nil => intro cs' h; cases cs' <;> simp_all [scanChain]
    | cons c cs ih =>
      intro cs' h
      cases cs' with
      | nil => simp at h
      | cons c' cs' =>
        simp only [List.map_cons, List.cons.injEq] at h
        simp only [scanChain, hfind c c' trusted trusted' 0 h.1 h2]
        split
        · rfl
        · exact ih cs' h.2
  unfold verifyAuthenticity
  have he : trusted.isEmpty = trusted'.isEmpty := by
    cases trusted <;> cases trusted' <;> simp_all
  simp only [he, hscan cs cs' h1]

/-- argument errors come first and are distinct from a trust failure -/
theorem C19_args (chain : Option (List TCert)) (trusted : List TCert) :
    (trusted = [] → verifyAuthenticity chain trusted = .error .invalidArgTrusted) ∧
    (trusted ≠ [] → chain = none → verifyAuthenticity chain trusted = .error .invalidArgSignerInfo) ∧
    (trusted ≠ [] → ∀ cs, chain = some cs → (∀ c ∈ cs, c.raw ∉ trusted.map (·.raw)) →
        verifyAuthenticity chain trusted = .error .authenticity) := by
  refine ⟨?_, ?_, ?_⟩
  · intro h; subst h; simp [verifyAuthenticity]
  · intro h hc; subst hc
    have he : trusted.isEmpty = false := by cases trusted <;> simp_all
    simp [verifyAuthenticity, he]
  · intro h cs hc hall; subst hc
    have he : trusted.isEmpty = false := by cases trusted <;> simp_all
    simp only [verifyAuthenticity, he, Bool.false_eq_true, if_false]
    cases hs : scanChain trusted cs with
    | none => rfl
    | some k =>
      obtain ⟨pos, hp, hk, h1, _, _⟩ := (scanChain_spec trusted cs).1 k hs
      exact absurd (List.mem_map.mpr ⟨trusted[k], List.getElem_mem hk, h1⟩) (hall _ (List.getElem_mem hp))

/-- the authentic signing time is available exactly under the signing-authority scheme with a
    non-zero signing time, and then it is that time -/
theorem C19_authentic_time (isAuthority : Bool) (st t : Time) :
    authenticSigningTime isAuthority st = some t ↔ (isAuthority = true ∧ st ≠ zeroT ∧ t = st) := by
  unfold authenticSigningTime isZeroT
  cases isAuthority with
  | false => simp
  | true =>
    by_cases h : st = zeroT
    · simp [h]
    · simp [h]; exact eq_comm

/-! ### non-vacuity -/
private def a : TCert := ⟨1, 10, 20, 1, 99⟩
private def aReissued : TCert := ⟨2, 10, 20, 2, 99⟩   -- same subject and key, other serial: not equal
private def b : TCert := ⟨3, 11, 21, 1, 99⟩
example : verifyAuthenticity (some [b, a]) [aReissued, a, b] = .ok 2 := by rfl      -- leaf-most (b) wins
example : verifyAuthenticity (some [a]) [aReissued] = .error .authenticity := by rfl
example : verifyAuthenticity (some [a]) [] = .error .invalidArgTrusted := by rfl
example : verifyAuthenticity none [a] = .error .invalidArgSignerInfo := by rfl

end NotationCore.Props
