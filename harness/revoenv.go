package main

// Scripted revocation environment: hand-built CRLs and OCSP responses, an http.RoundTripper and a
// crl.Fetcher whose behaviour per URL is prescribed by the case, request logs, and the abstraction
// of everything served into the records of the Lean model (computed with the standard library from
// the served bytes, never with notation-core-go).

import (
	"bytes"
	"context"
	"crypto"
	"crypto/ecdsa"
	"crypto/rand"
	"crypto/rsa"
	"crypto/sha256"
	"crypto/x509"
	"crypto/x509/pkix"
	"encoding/asn1"
	"errors"
	"fmt"
	"io"
	"math/big"
	"net/http"
	"net/url"
	"strings"
	"sync"
	"time"

	corecrl "github.com/notaryproject/notation-core-go/revocation/crl"
	"golang.org/x/crypto/cryptobyte"
	"golang.org/x/crypto/ocsp"
)

var (
	oidCRLNumber      = asn1.ObjectIdentifier{2, 5, 29, 20}
	oidReasonCode     = asn1.ObjectIdentifier{2, 5, 29, 21}
	oidInvalidityDate = asn1.ObjectIdentifier{2, 5, 29, 24}
	oidDeltaIndicator = asn1.ObjectIdentifier{2, 5, 29, 27}
	oidIDP            = asn1.ObjectIdentifier{2, 5, 29, 28}
	oidAKI            = asn1.ObjectIdentifier{2, 5, 29, 35}
	oidUnknownExt     = asn1.ObjectIdentifier{1, 3, 6, 1, 4, 1, 99999, 7}
	oidSigECDSASHA256 = asn1.ObjectIdentifier{1, 2, 840, 10045, 4, 3, 2}
	oidSigRSASHA256   = asn1.ObjectIdentifier{1, 2, 840, 113549, 1, 1, 11}
)

// ---------------------------------------------------------------------------------------------
// CRL construction (own DER assembly: x509.CreateRevocationList refuses CRLs without number or
// nextUpdate, which are exactly the ones we need)

type EntrySpec struct {
	Serial         *big.Int
	Reason         int // -1: no reason code extension (reason 0)
	RevTime        time.Time
	InvDate        *time.Time
	InvBad         string // "", "malformed", "trailing"
	CritUnknown    bool   // unknown critical entry extension
	NonCritUnknown bool
	ReasonCritical bool
}

type CRLSpec struct {
	Number         *big.Int // nil: no CRL number extension
	ThisUpdate     time.Time
	NextUpdate     time.Time // zero: absent
	Entries        []EntrySpec
	CritUnknown    bool // unknown critical list extension
	NonCritUnknown bool
	IDPCritical    bool     // add a critical issuingDistributionPoint extension (benign)
	Indicator      *big.Int // delta CRL indicator (critical, as RFC 5280 requires)
	IndicatorBad   bool     // indicator extension whose value is not an INTEGER
	Freshest       []string // freshest-CRL URLs advertised by this (base) CRL
	FreshestRaw    []byte   // raw freshest-CRL extension value (overrides Freshest)
	FreshestAgain  []byte   // a second extension with the same OID after it (nil: none)
	Signer         *Issued  // who signs (default: the issuer passed to buildCRL)
	CorruptSig     bool
}

func signDigestInfo(priv crypto.Signer, tbs []byte) (pkix.AlgorithmIdentifier, []byte, error) {
	h := sha256.Sum256(tbs)
	switch priv.(type) {
	case *ecdsa.PrivateKey:
		sig, err := priv.Sign(rand.Reader, h[:], crypto.SHA256)
		return pkix.AlgorithmIdentifier{Algorithm: oidSigECDSASHA256}, sig, err
	case *rsa.PrivateKey:
		sig, err := priv.Sign(rand.Reader, h[:], crypto.SHA256)
		return pkix.AlgorithmIdentifier{Algorithm: oidSigRSASHA256, Parameters: asn1.NullRawValue}, sig, err
	}
	return pkix.AlgorithmIdentifier{}, nil, errors.New("unsupported CRL signer key")
}

func sigAlgFor(priv crypto.Signer) pkix.AlgorithmIdentifier {
	switch priv.(type) {
	case *ecdsa.PrivateKey:
		return pkix.AlgorithmIdentifier{Algorithm: oidSigECDSASHA256}
	default:
		return pkix.AlgorithmIdentifier{Algorithm: oidSigRSASHA256, Parameters: asn1.NullRawValue}
	}
}

func mustMarshal(v any, params ...string) []byte {
	var b []byte
	var err error
	if len(params) > 0 {
		b, err = asn1.MarshalWithParams(v, params[0])
	} else {
		b, err = asn1.Marshal(v)
	}
	if err != nil {
		panic(err)
	}
	return b
}

func buildCRL(issuer *Issued, spec CRLSpec) []byte {
	signer := issuer
	if spec.Signer != nil {
		signer = spec.Signer
	}
	var rdn pkix.RDNSequence
	if _, err := asn1.Unmarshal(issuer.Cert.RawSubject, &rdn); err != nil {
		panic(err)
	}
	tbs := pkix.TBSCertificateList{
		Version:    1,
		Signature:  sigAlgFor(signer.Key.Priv),
		Issuer:     rdn,
		ThisUpdate: spec.ThisUpdate.UTC(),
	}
	if !spec.NextUpdate.IsZero() {
		tbs.NextUpdate = spec.NextUpdate.UTC()
	}
	for _, e := range spec.Entries {
		rc := pkix.RevokedCertificate{SerialNumber: e.Serial, RevocationTime: e.RevTime.UTC()}
		if e.Reason >= 0 {
			rc.Extensions = append(rc.Extensions, pkix.Extension{Id: oidReasonCode, Critical: e.ReasonCritical, Value: mustMarshal(asn1.Enumerated(e.Reason))})
		}
		if e.InvDate != nil {
			v := mustMarshal(e.InvDate.UTC(), "generalized")
			switch e.InvBad {
			case "malformed":
				v = []byte{0x18, 0x03, 'b', 'a', 'd'}
			case "trailing":
				v = append(v, 0x05, 0x00)
			}
			rc.Extensions = append(rc.Extensions, pkix.Extension{Id: oidInvalidityDate, Value: v})
		}
		if e.CritUnknown {
			rc.Extensions = append(rc.Extensions, pkix.Extension{Id: oidUnknownExt, Critical: true, Value: []byte{0x05, 0x00}})
		}
		if e.NonCritUnknown {
			rc.Extensions = append(rc.Extensions, pkix.Extension{Id: append(append(asn1.ObjectIdentifier{}, oidUnknownExt...), 2), Value: []byte{0x05, 0x00}})
		}
		tbs.RevokedCertificates = append(tbs.RevokedCertificates, rc)
	}
	if spec.Number != nil {
		tbs.Extensions = append(tbs.Extensions, pkix.Extension{Id: oidCRLNumber, Value: mustMarshal(spec.Number)})
	}
	if spec.Indicator != nil {
		tbs.Extensions = append(tbs.Extensions, pkix.Extension{Id: oidDeltaIndicator, Critical: true, Value: mustMarshal(spec.Indicator)})
	}
	if spec.IndicatorBad {
		tbs.Extensions = append(tbs.Extensions, pkix.Extension{Id: oidDeltaIndicator, Critical: true, Value: []byte{0x04, 0x01, 0x01}})
	}
	if spec.CritUnknown {
		tbs.Extensions = append(tbs.Extensions, pkix.Extension{Id: oidUnknownExt, Critical: true, Value: []byte{0x05, 0x00}})
	}
	if spec.NonCritUnknown {
		tbs.Extensions = append(tbs.Extensions, pkix.Extension{Id: append(append(asn1.ObjectIdentifier{}, oidUnknownExt...), 3), Value: []byte{0x05, 0x00}})
	}
	if spec.IDPCritical {
		// IssuingDistributionPoint ::= SEQUENCE { onlyContainsUserCerts [1] BOOLEAN DEFAULT FALSE ... } : empty sequence
		tbs.Extensions = append(tbs.Extensions, pkix.Extension{Id: oidIDP, Critical: true, Value: []byte{0x30, 0x00}})
	}
	if spec.FreshestRaw != nil {
		tbs.Extensions = append(tbs.Extensions, pkix.Extension{Id: oidFreshestCRL, Value: spec.FreshestRaw})
	} else if len(spec.Freshest) > 0 {
		tbs.Extensions = append(tbs.Extensions, pkix.Extension{Id: oidFreshestCRL, Value: mustFreshest(spec.Freshest)})
	}
	if spec.FreshestAgain != nil {
		tbs.Extensions = append(tbs.Extensions, pkix.Extension{Id: oidFreshestCRL, Value: spec.FreshestAgain})
	}
	tbsDER := mustMarshal(tbs)
	alg, sig, err := signDigestInfo(signer.Key.Priv, tbsDER)
	if err != nil {
		panic(err)
	}
	if spec.CorruptSig {
		sig[len(sig)-1] ^= 1
	}
	var raw asn1.RawValue
	if _, err := asn1.Unmarshal(tbsDER, &raw); err != nil {
		panic(err)
	}
	type certList struct {
		TBS asn1.RawValue
		Alg pkix.AlgorithmIdentifier
		Sig asn1.BitString
	}
	return mustMarshal(certList{TBS: raw, Alg: alg, Sig: asn1.BitString{Bytes: sig, BitLength: len(sig) * 8}})
}

// absCRL: the model's CrlRec for a parsed CRL relative to an issuer — standard library only.
func absCRL(l *x509.RevocationList, issuer *x509.Certificate) map[string]any {
	var number any
	if l.Number != nil {
		number = l.Number // exact
	}
	critUnknown := false
	var indicator any
	for _, e := range l.Extensions {
		switch {
		case e.Id.Equal(oidIDP):
		case e.Id.Equal(oidDeltaIndicator):
			n := new(big.Int)
			v := cryptobyte.String(e.Value)
			if v.ReadASN1Integer(n) {
				indicator = n // exact
			} else {
				indicator = "bad"
			}
		default:
			if e.Critical {
				critUnknown = true
			}
		}
	}
	entries := []any{}
	for _, e := range l.RevokedCertificateEntries {
		bad := false
		inv := time.Time{}
		for _, x := range e.Extensions {
			if x.Id.Equal(oidInvalidityDate) {
				var t time.Time
				rest, err := asn1.UnmarshalWithParams(x.Value, &t, "generalized")
				if err != nil || len(rest) > 0 {
					bad = true
					break
				}
				inv = t
			} else if x.Critical {
				bad = true
				break
			}
		}
		entries = append(entries, map[string]any{"serial": e.SerialNumber, "reason": e.ReasonCode,
			"revTime": tsec(e.RevocationTime), "invDate": tsec(inv), "badExt": bad})
	}
	return map[string]any{"sigOK": l.CheckSignatureFrom(issuer) == nil, "nextUpdate": tsec(l.NextUpdate), "number": number,
		"critUnknownExt": critUnknown, "indicator": indicator, "entries": entries}
}

// ---------------------------------------------------------------------------------------------
// scripted crl.Fetcher

type fetchBehaviour struct {
	// where the base list of the bundle says its delta is (set when the bundle has a delta): lets the bundle be served over
	// HTTP through the real fetcher
	deltaURL string
	bundle   *corecrl.Bundle
	err      error
	panicV   any
	block    chan struct{} // if set: wait until closed (or ctx done)
}

type scriptedFetcher struct {
	mu      sync.Mutex
	m       map[string]*fetchBehaviour
	log     []string
	onFirst func() // called when the first fetch arrives (used to cancel mid-flight)
	calls   int
}

func (f *scriptedFetcher) Fetch(ctx context.Context, u string) (*corecrl.Bundle, error) {
	f.mu.Lock()
	f.log = append(f.log, u)
	b := f.m[u]
	f.calls++
	first := f.calls == 1
	on := f.onFirst
	f.mu.Unlock()
	if first && on != nil {
		on()
	}
	// like the real HTTP fetcher, a cancelled context makes the download fail
	if err := ctx.Err(); err != nil {
		return nil, err
	}
	if b == nil {
		return nil, errors.New("scripted fetcher: unknown url")
	}
	if b.block != nil {
		select {
		case <-b.block:
		case <-ctx.Done():
			return nil, ctx.Err()
		}
	}
	if b.panicV != nil {
		panic(b.panicV)
	}
	return b.bundle, b.err
}

func absFetch(b *fetchBehaviour, issuer *x509.Certificate) map[string]any {
	if b == nil || b.err != nil || b.bundle == nil {
		return map[string]any{"base": nil}
	}
	out := map[string]any{"base": absCRL(b.bundle.BaseCRL, issuer), "delta": nil}
	if b.bundle.DeltaCRL != nil {
		out["delta"] = absCRL(b.bundle.DeltaCRL, issuer)
	}
	return out
}

// ---------------------------------------------------------------------------------------------
// scripted http.RoundTripper (OCSP responders and CRL servers), keyed by scheme://host/path-prefix

type httpBehaviour struct {
	status  int
	body    []byte
	err     error // transport error
	timeout bool  // transport error that reports Timeout()
	waitCtx bool  // block until the request context is done, then return its error
	panicV  any
	gate    chan struct{} // barrier: wait until closed
	handler func(req *http.Request) (*http.Response, error)
	bodyErr error // body that fails while being read
	// response header fields (what HTTP itself says about the reply: freshness, type, retry): none of it is evidence
	header http.Header
}

type reqLog struct {
	Method string
	URL    string
	Key    string
}

type scriptedTransport struct {
	mu         sync.Mutex
	m          map[string]*httpBehaviour // key: server URL as configured in the certificate
	log        []reqLog
	arrive     func(key string) // called when a request arrives (before gates)
	lengthMode string           // "", "exact", "unknown": the ContentLength of the responses
}

type timeoutErr struct{}

func (timeoutErr) Error() string   { return "scripted timeout" }
func (timeoutErr) Timeout() bool   { return true }
func (timeoutErr) Temporary() bool { return true }

type failingBody struct{ err error }

func (f failingBody) Read([]byte) (int, error) { return 0, f.err }
func (f failingBody) Close() error             { return nil }

func (t *scriptedTransport) find(u *url.URL) (string, *httpBehaviour) {
	// the very URL first (query included): two distribution points may differ in their query only
	if b, ok := t.m[u.String()]; ok {
		return u.String(), b
	}
	best := ""
	var bb *httpBehaviour
	for k, b := range t.m {
		ku, err := url.Parse(k)
		if err != nil {
			continue
		}
		if !strings.EqualFold(ku.Scheme, u.Scheme) || !strings.EqualFold(ku.Host, u.Host) {
			continue
		}
		kp := strings.TrimSuffix(ku.EscapedPath(), "/")
		up := u.EscapedPath()
		if (up == kp || up == kp+"/" || strings.HasPrefix(up, kp+"/")) && len(k) > len(best) {
			best, bb = k, b
		}
	}
	return best, bb
}

func (t *scriptedTransport) RoundTrip(req *http.Request) (*http.Response, error) {
	t.mu.Lock()
	key, b := t.find(req.URL)
	t.log = append(t.log, reqLog{Method: req.Method, URL: req.URL.String(), Key: key})
	arrive := t.arrive
	t.mu.Unlock()
	if arrive != nil {
		arrive(key)
	}
	if err := req.Context().Err(); err != nil {
		return nil, err
	}
	if b == nil {
		return nil, errors.New("scripted transport: no such server " + req.URL.String())
	}
	if b.gate != nil {
		select {
		case <-b.gate:
		case <-req.Context().Done():
			return nil, req.Context().Err()
		}
	}
	if b.waitCtx {
		<-req.Context().Done()
		return nil, req.Context().Err()
	}
	if b.panicV != nil {
		panic(b.panicV)
	}
	if b.timeout {
		return nil, timeoutErr{}
	}
	if b.err != nil {
		return nil, b.err
	}
	if err := req.Context().Err(); err != nil {
		return nil, err
	}
	if b.handler != nil {
		return b.handler(req)
	}
	st := b.status
	if st == 0 {
		st = 200
	}
	var body io.ReadCloser = io.NopCloser(bytes.NewReader(b.body))
	if b.bodyErr != nil {
		body = failingBody{b.bodyErr}
	}
	// what the response says about its own length: nothing (0, as a hand-made response does), the truth, or "unknown" (-1, as
	// net/http reports a chunked, compressed or close-delimited body) — the body is the same
	cl := int64(0)
	switch t.lengthMode {
	case "exact":
		cl = int64(len(b.body))
	case "unknown":
		cl = -1
	}
	hdr := http.Header{}
	for k, v := range b.header {
		hdr[k] = append([]string{}, v...)
	}
	return &http.Response{StatusCode: st, Status: fmt.Sprintf("%d %s", st, http.StatusText(st)), Proto: "HTTP/1.1", ProtoMajor: 1, ProtoMinor: 1,
		Body: body, ContentLength: cl, Header: hdr, Request: req}, nil
}

// ---------------------------------------------------------------------------------------------
// OCSP responses

type OCSPSpec struct {
	Status        int // ocsp.Good / Revoked / Unknown
	Serial        *big.Int
	ThisUpdate    time.Time
	NextUpdate    time.Time // zero: absent
	InvDate       *time.Time
	InvBad        string            // "", "malformed", "trailing"
	CritExt       bool              // critical single extension
	NoCheck       bool              // add pkix-ocsp-nocheck single extension (ignored by the code)
	Signer        *Issued           // key that signs
	Embed         *x509.Certificate // embedded responder certificate (nil: none)
	ResponderIDOf *x509.Certificate // certificate whose subject is put into the ResponderID (default: the signer's)
	CorruptSig    bool
	RevokedAt     *time.Time // revocation time of a Revoked answer (default: an hour before thisUpdate)
	Reason        int        // revocation reason of a Revoked answer (0: keyCompromise, the default; -1: unspecified(0))
}

func buildOCSP(issuer *Issued, spec OCSPSpec) []byte {
	tmpl := ocsp.Response{Status: spec.Status, SerialNumber: spec.Serial, ThisUpdate: spec.ThisUpdate, NextUpdate: spec.NextUpdate}
	if spec.Status == ocsp.Revoked {
		tmpl.RevokedAt = spec.ThisUpdate.Add(-time.Hour)
		if spec.RevokedAt != nil {
			tmpl.RevokedAt = *spec.RevokedAt
		}
		tmpl.RevocationReason = ocsp.KeyCompromise
		if spec.Reason > 0 {
			tmpl.RevocationReason = spec.Reason
		} else if spec.Reason < 0 {
			tmpl.RevocationReason = ocsp.Unspecified
		}
	}
	if spec.InvDate != nil {
		v := mustMarshal(spec.InvDate.UTC(), "generalized")
		switch spec.InvBad {
		case "malformed":
			v = []byte{0x18, 0x03, 'b', 'a', 'd'}
		case "trailing":
			v = append(v, 0x05, 0x00)
		}
		tmpl.ExtraExtensions = append(tmpl.ExtraExtensions, pkix.Extension{Id: oidInvalidityDate, Value: v})
	}
	if spec.CritExt {
		tmpl.ExtraExtensions = append(tmpl.ExtraExtensions, pkix.Extension{Id: oidUnknownExt, Critical: true, Value: []byte{0x05, 0x00}})
	}
	if spec.NoCheck {
		tmpl.ExtraExtensions = append(tmpl.ExtraExtensions, pkix.Extension{Id: asn1.ObjectIdentifier{1, 3, 6, 1, 5, 5, 7, 48, 1, 5}, Value: []byte{0x05, 0x00}})
	}
	signer := issuer
	if spec.Signer != nil {
		signer = spec.Signer
	}
	if spec.Embed != nil {
		tmpl.Certificate = spec.Embed
	}
	idCert := signer.Cert
	if spec.ResponderIDOf != nil {
		idCert = spec.ResponderIDOf
	}
	der, err := ocsp.CreateResponse(issuer.Cert, idCert, tmpl, signer.Key.Priv)
	if err != nil {
		panic(fmt.Sprintf("ocsp.CreateResponse: %v", err))
	}
	if spec.CorruptSig {
		// the signature BIT STRING precedes the optional certs; flip a bit inside it by locating the
		// signature bytes of a second, identical-length structure is fragile — instead re-sign with
		// a wrong key
		panic("use Signer = unrelated key instead of CorruptSig")
	}
	return der
}
