package main

// C19: VerifyAuthenticity over a pool of look-alike certificates, exhaustively.

import (
	"bytes"
	"crypto"
	"crypto/rand"
	"crypto/sha256"
	"crypto/x509"
	"crypto/x509/pkix"
	"encoding/asn1"
	"encoding/json"
	"encoding/pem"
	"errors"
	"fmt"
	"math/big"
	"os"
	"path/filepath"
	"sync"
	"time"

	"github.com/notaryproject/notation-core-go/signature"
	nx509 "github.com/notaryproject/notation-core-go/x509"
)

type poolCert struct {
	der  []byte
	abs  []int // raw, subject, key, serial, issuer ids
	name string
}

func buildTrustPool() []poolCert {
	now := baseTime()
	ca := func(cn, key string) *Issued {
		c, err := issue(&CertSpec{CN: cn, KeyID: key, BC: true, IsCA: true, MaxPathLen: -1, KUPresent: true, KUCritical: true,
			KU: x509.KeyUsageCertSign, NotBefore: now.Add(-time.Hour), NotAfter: now.Add(100 * time.Hour)}, nil)
		if err != nil {
			panic(err)
		}
		return c
	}
	ca1, ca2 := ca("trust-ca-1", "ec256-60"), ca("trust-ca-2", "ec256-61")
	leaf := func(cn, key string, serial int64, notAfter time.Duration, parent *Issued) *Issued {
		c, err := issue(&CertSpec{CN: cn, KeyID: key, Serial: big.NewInt(serial), KUPresent: true, KUCritical: true, KU: x509.KeyUsageDigitalSignature,
			NotBefore: now.Add(-time.Hour), NotAfter: now.Add(notAfter)}, parent)
		if err != nil {
			panic(err)
		}
		return c
	}
	a := leaf("signer", "ec256-62", 7, 50*time.Hour, ca1)
	var pool []*Issued
	var names []string
	add := func(n string, c *Issued) { pool = append(pool, c); names = append(names, n) }
	add("A", a)
	add("A-reissued-other-serial", leaf("signer", "ec256-62", 8, 50*time.Hour, ca1))
	add("A-reissued-other-validity", leaf("signer", "ec256-62", 7, 60*time.Hour, ca1))
	add("same-subject-other-key", leaf("signer", "ec256-63", 9, 50*time.Hour, ca1))
	add("cross-signed", leaf("signer", "ec256-62", 7, 50*time.Hour, ca2))
	add("same-serial-other-issuer", leaf("somebody", "ec256-64", 7, 50*time.Hour, ca2))
	add("ca1", ca1)
	add("ca2", ca2)
	add("unrelated", leaf("unrelated", "ec256-65", 11, 50*time.Hour, ca2))
	ders, subj, keys, sers, issu := &interner{}, &interner{}, &interner{}, &interner{}, &interner{}
	var out []poolCert
	for i, c := range pool {
		x := c.Cert
		out = append(out, poolCert{der: x.Raw, name: names[i], abs: []int{ders.id(x.Raw), subj.id(x.RawSubject), keys.id(x.RawSubjectPublicKeyInfo), sers.id(x.SerialNumber.Bytes()), issu.id(x.RawIssuer)}})
	}
	// a byte-identical copy of A (re-parsed: another pointer, same bytes)
	out = append(out, poolCert{der: a.Cert.Raw, name: "A-identical-copy", abs: out[0].abs})
	// the same to-be-signed content under another signature value: signed once more by the CA (ECDSA signing is randomised),
	// and with a damaged signature (parsing does not verify it) — every field equal, the certificate is not the same bytes
	var outer struct {
		TBS asn1.RawValue
		Alg pkix.AlgorithmIdentifier
		Sig asn1.BitString
	}
	if _, err := asn1.Unmarshal(a.Cert.Raw, &outer); err != nil {
		panic(err)
	}
	h := sha256.Sum256(outer.TBS.FullBytes)
	sig2, err := ca1.Key.Priv.Sign(rand.Reader, h[:], crypto.SHA256)
	if err != nil {
		panic(err)
	}
	for i, sig := range [][]byte{sig2, append(append([]byte{}, outer.Sig.Bytes[:len(outer.Sig.Bytes)-1]...), outer.Sig.Bytes[len(outer.Sig.Bytes)-1]^1)} {
		o2 := outer
		o2.Sig = asn1.BitString{Bytes: sig, BitLength: 8 * len(sig)}
		der, err := asn1.Marshal(o2)
		if err != nil {
			panic(err)
		}
		if bytes.Equal(der, a.Cert.Raw) {
			panic("twin certificate is identical")
		}
		x := parseFresh(der)
		out = append(out, poolCert{der: der, name: []string{"A-same-content-signed-again", "A-same-content-damaged-signature"}[i],
			abs: []int{ders.id(x.Raw), subj.id(x.RawSubject), keys.id(x.RawSubjectPublicKeyInfo), sers.id(x.SerialNumber.Bytes()), issu.id(x.RawIssuer)}})
	}
	return out
}

func parseFresh(der []byte) *x509.Certificate {
	c, err := x509.ParseCertificate(der)
	if err != nil {
		panic(err)
	}
	return c
}

func trustErrName(err error) string {
	var ia *signature.InvalidArgumentError
	if errors.As(err, &ia) {
		switch ia.Param {
		case "trustedCerts":
			return "invalidArgTrusted"
		case "signerInfo":
			return "invalidArgSignerInfo"
		}
		return "invalidArg:" + ia.Param
	}
	var ae *signature.SignatureAuthenticityError
	if errors.As(err, &ae) {
		return "authenticity"
	}
	return "other:" + err.Error()
}

func tuples(n, k int) [][]int {
	if k == 0 {
		return [][]int{{}}
	}
	var out [][]int
	for _, t := range tuples(n, k-1) {
		for i := 0; i < n; i++ {
			out = append(out, append(append([]int{}, t...), i))
		}
	}
	return out
}

func genC19(r *Runner) {
	pool := buildTrustPool()
	quick := tier() == "quick"
	n := len(pool)
	maxChain, maxTrust := 3, 3
	sub := n
	if quick {
		sub = 7 // A, 3 re-issues, cross-signed, same-serial, identical copy are kept below
	}
	idx := make([]int, 0, n)
	if quick {
		idx = []int{0, 1, 3, 4, 6, 9, 10}
	} else {
		for i := 0; i < n; i++ {
			idx = append(idx, i)
		}
		maxChain, maxTrust = 3, 3 // 12 certificates: 1884 chains x 1885 trust lists
	}
	_ = sub
	var chains, trusts [][]int
	for k := 1; k <= maxChain; k++ {
		for _, t := range tuples(len(idx), k) {
			c := make([]int, k)
			for i, v := range t {
				c[i] = idx[v]
			}
			chains = append(chains, c)
		}
	}
	for k := 0; k <= maxTrust; k++ {
		for _, t := range tuples(len(idx), k) {
			c := make([]int, k)
			for i, v := range t {
				c[i] = idx[v]
			}
			trusts = append(trusts, c)
		}
	}
	// parsed instances: one per (pool index, position) so that pointer identity is meaningful
	inst := func(is []int) []*x509.Certificate {
		out := make([]*x509.Certificate, len(is))
		for i, p := range is {
			out[i] = parseFresh(pool[p].der)
		}
		return out
	}
	absOf := func(is []int) []any {
		out := []any{}
		for _, p := range is {
			out = append(out, pool[p].abs)
		}
		return out
	}
	trustInst := make([][]*x509.Certificate, len(trusts))
	for i, t := range trusts {
		trustInst[i] = inst(t)
	}
	var wg sync.WaitGroup
	ch := make(chan int, 64)
	for w := 0; w < 16; w++ {
		wg.Add(1)
		go func() {
			defer wg.Done()
			for ci := range ch {
				chain := inst(chains[ci])
				info := &signature.SignerInfo{CertificateChain: chain}
				for ti, tl := range trustInst {
					got, err := signature.VerifyAuthenticity(info, tl)
					impl := map[string]any{}
					if err != nil {
						impl["err"] = trustErrName(err)
					} else {
						k := -1
						for j, t := range tl {
							if t == got {
								k = j
							}
						}
						impl["ok"] = k
					}
					r.Submit(&Case{ID: fmt.Sprintf("c%d-t%d", ci, ti), K: "trust",
						In:      map[string]any{"chain": absOf(chains[ci]), "trusted": absOf(trusts[ti])},
						Impl:    impl,
						Class:   fmt.Sprintf("chain%d-trust%d", len(chains[ci]), len(trusts[ti])),
						Trivial: len(trusts[ti]) == 0,
						Replay:  map[string]any{"chain": chains[ci], "trusted": trusts[ti]}})
				}
			}
		}()
	}
	for i := range chains {
		ch <- i
	}
	close(ch)
	wg.Wait()
	// argument errors: nil signer info
	for ti, tl := range trustInst {
		if ti > 20 {
			break
		}
		_, err := signature.VerifyAuthenticity(nil, tl)
		impl := map[string]any{}
		if err != nil {
			impl["err"] = trustErrName(err)
		} else {
			impl["ok"] = 0
		}
		r.Submit(&Case{ID: fmt.Sprintf("nil-info-t%d", ti), K: "trust", In: map[string]any{"chain": nil, "trusted": absOf(trusts[ti])}, Impl: impl, Class: "nil-signer-info"})
	}
	// empty chain in signer info
	for ti, tl := range trustInst {
		if ti > 20 {
			break
		}
		_, err := signature.VerifyAuthenticity(&signature.SignerInfo{}, tl)
		impl := map[string]any{}
		if err != nil {
			impl["err"] = trustErrName(err)
		} else {
			impl["ok"] = 0
		}
		r.Submit(&Case{ID: fmt.Sprintf("empty-chain-t%d", ti), K: "trust", In: map[string]any{"chain": []any{}, "trusted": absOf(trusts[ti])}, Impl: impl, Class: "empty-chain"})
	}
	// trust lists loaded from files (x509.ReadCertificateFile): every PEM block of the file is a certificate of the list, whatever
	// its label says and whatever headers it carries — a block silently left out is a trusted certificate that no longer matches
	{
		tmp, err := os.MkdirTemp(filepath.Join(os.Getenv("VERIF_ROOT"), ".tmp"), "trustfiles")
		if err != nil {
			tmp, err = os.MkdirTemp("", "trustfiles")
			if err != nil {
				panic(err)
			}
		}
		defer os.RemoveAll(tmp)
		labels := []string{"CERTIFICATE", "X509 CERTIFICATE", "TRUSTED CERTIFICATE", "certificate", "CERTIFICATE ", ""}
		hdrs := []map[string]string{nil, {"friendlyName": "pinned"}, {"Proc-Type": "4,ENCRYPTED"}}
		fi := 0
		for _, lab := range labels {
			for _, hd := range hdrs {
				for _, tl := range [][]int{{0}, {6, 0}, {0, 6}, {1, 0, 6}, {6}} {
					for _, oddAt := range []int{0, len(tl) - 1} {
						// the odd label / headers on one block of the file, plain CERTIFICATE blocks around it
						var file []byte
						for bi, p := range tl {
							blk := &pem.Block{Type: "CERTIFICATE", Bytes: pool[p].der}
							if bi == oddAt {
								blk.Type, blk.Headers = lab, hd
							}
							file = append(file, pem.EncodeToMemory(blk)...)
						}
						fi++
						path := filepath.Join(tmp, fmt.Sprintf("trust-%d.pem", fi))
						if err := os.WriteFile(path, file, 0o600); err != nil {
							panic(err)
						}
						loaded, lerr := nx509.ReadCertificateFile(path)
						for _, ch := range [][]int{{0}, {0, 6}, {3, 6}, {9, 6}} {
							impl := map[string]any{}
							switch {
							case lerr != nil:
								impl["load_defect"] = fmt.Sprintf("trust_file_of_valid_certificates_refused: label %q headers %v: %v", lab, hd, lerr)
							case len(loaded) != len(tl):
								impl["load_defect"] = fmt.Sprintf("trust_file_block_left_out: label %q headers %v: %d certificates from %d blocks", lab, hd, len(loaded), len(tl))
							default:
								got, err := signature.VerifyAuthenticity(&signature.SignerInfo{CertificateChain: inst(ch)}, loaded)
								if err != nil {
									impl["err"] = trustErrName(err)
								} else {
									k := -1
									for j, t := range loaded {
										if t == got {
											k = j
										}
									}
									impl["ok"] = k
								}
							}
							r.Submit(&Case{ID: fmt.Sprintf("file-%d-c%v", fi, ch), K: "trust", In: map[string]any{"chain": absOf(ch), "trusted": absOf(tl)}, Impl: impl,
								Class: "trust-list-from-file", Replay: map[string]any{"chain": ch, "trusted_file_blocks": tl, "odd_block": oddAt, "label": lab, "headers": hd}})
						}
					}
				}
			}
		}
	}
	// authentic signing time
	zero := time.Time{}
	for _, scheme := range []signature.SigningScheme{signature.SigningSchemeX509, signature.SigningSchemeX509SigningAuthority, "", "notary.x509.signingauthority", "other"} {
		// (the absent signing time is an instant — year 1, 00:00:00 UTC — however the value carrying it was obtained: in a location, from
		// Unix seconds, parsed from text)
		zeroParsed, _ := time.Parse(time.RFC3339, "0001-01-01T01:00:00+01:00")
		for ti, t := range []time.Time{zero, time.Unix(0, 0), time.Unix(1700000000, 5), baseTime(), baseTime().In(time.FixedZone("", 5*3600+1800)),
			zero.Local(), zero.UTC(), zero.In(time.FixedZone("x", 3600)), zero.In(time.FixedZone("", 0)), time.Unix(-62135596800, 0), time.Unix(-62135596800, 0).UTC(), zeroParsed,
			zero.Add(1), time.Unix(-62135596800, 1), zero.Add(-time.Nanosecond), zero.Add(time.Second).In(time.FixedZone("y", -3600))} {
			// everything else a SignerInfo carries: the answer depends on the scheme and the signing time alone
			for oi, other := range []func(si *signature.SignerInfo){
				func(si *signature.SignerInfo) {},
				func(si *signature.SignerInfo) { si.SignedAttributes.Expiry = t },
				func(si *signature.SignerInfo) { si.SignedAttributes.Expiry = t.In(time.FixedZone("", -7*3600)) },
				func(si *signature.SignerInfo) { si.SignedAttributes.Expiry = t.Add(-time.Second) },
				func(si *signature.SignerInfo) { si.SignedAttributes.Expiry = t.Add(-1000 * time.Hour) },
				func(si *signature.SignerInfo) { si.SignedAttributes.Expiry = t.Add(time.Hour) },
				func(si *signature.SignerInfo) {
					si.SignedAttributes.ExtendedAttributes = []signature.Attribute{{Key: "io.cncf.notary.authenticSigningTime", Critical: true, Value: "2001-01-01T00:00:00Z"}}
					si.UnsignedAttributes.TimestampSignature = []byte{1, 2, 3}
					si.UnsignedAttributes.SigningAgent = "agent"
					si.Signature = []byte{1}
					si.SignatureAlgorithm = signature.AlgorithmES256
				},
				// a certificate chain (valid these days: most of the times tried lie outside its leaf's validity), whole and leaf only
				func(si *signature.SignerInfo) { si.CertificateChain = getIdentity("ec256-0", 2).chain },
				func(si *signature.SignerInfo) { si.CertificateChain = getIdentity("ec256-0", 3).chain[:1] },
				func(si *signature.SignerInfo) {
					si.CertificateChain = getIdentity("rsa2048-0", 2).chain
					si.SignedAttributes.Expiry = t.Add(time.Hour)
					si.SignatureAlgorithm = signature.AlgorithmPS256
				},
			} {
				si := &signature.SignerInfo{}
				si.SignedAttributes.SigningScheme = scheme
				si.SignedAttributes.SigningTime = t
				other(si)
				got, err := si.AuthenticSigningTime()
				impl := map[string]any{"time": nil}
				if err == nil {
					// (exact: the year-1 instants do not fit 64-bit nanoseconds)
					ns := new(big.Int).Mul(big.NewInt(got.Unix()), big.NewInt(1000000000))
					impl["time"] = json.Number(ns.Add(ns, big.NewInt(int64(got.Nanosecond()))).String())
				}
				r.Submit(&Case{ID: fmt.Sprintf("authtime-%s-%d-%d-%d", scheme, ti, t.Unix(), oi), K: "authtime",
					In:   map[string]any{"authority": scheme == signature.SigningSchemeX509SigningAuthority, "st": tsec(t)},
					Impl: impl, Class: "authentic-signing-time", Replay: map[string]any{"scheme": string(scheme), "signing_time": t.String(), "other_fields_variant": oi}})
			}
		}
	}
	r.sum.Exhaustive = true
}
