package main

// Independent JWS (JSON serialization) encoder, and the abstraction of a built envelope into the
// Lean model's input. Nothing here goes through notation-core-go or golang-jwt: signatures are made
// and checked with crypto/rsa and crypto/ecdsa directly over a signing input assembled here.

import (
	"bytes"
	"crypto"
	"crypto/ecdsa"
	"crypto/hmac"
	"crypto/rand"
	"crypto/rsa"
	"crypto/sha256"
	"crypto/sha512"
	"crypto/x509"
	"encoding/base64"
	"encoding/hex"
	"encoding/json"
	"fmt"
	"math/big"
	"sort"
	"strings"
	"time"
)

var jwsHeaderKeyList = []string{"alg", "cty", "crit", "io.cncf.notary.expiry", "io.cncf.notary.signingTime", "io.cncf.notary.signingScheme", "io.cncf.notary.authenticSigningTime"}

type jMember struct {
	Key string
	Raw string // JSON text of the value
}

type jwsBuild struct {
	Members       []jMember
	ProtectedSeg  *string // overrides the protected segment (base64url text) entirely
	ProtectedJSON *string // overrides the JSON text inside the protected segment
	Payload       []byte
	PayloadSeg    *string
	SignAlg       string // algorithm the harness signs with: PS256.. ES512, RS256, HS256, none, "" = none
	SignKey       *Key   // default: leaf key
	SigSeg        *string
	SigMutate     func(sig []byte) []byte
	Chain         []*x509.Certificate
	X5cRaw        [][]byte // overrides Chain's DER
	Agent         string
	Tst           []byte
	OuterJSON     *string // overrides the whole envelope text
	OuterStyle    string  // "", "reordered", "whitespace", "dup-payload-first", "extra-key"
}

func b64u(b []byte) string { return base64.RawURLEncoding.EncodeToString(b) }

func jsonStr(s string) string {
	b, _ := json.Marshal(s)
	return string(b)
}

func (b *jwsBuild) protectedJSON() string {
	if b.ProtectedJSON != nil {
		return *b.ProtectedJSON
	}
	var sb strings.Builder
	sb.WriteString("{")
	for i, m := range b.Members {
		if i > 0 {
			sb.WriteString(",")
		}
		sb.WriteString(jsonStr(m.Key))
		sb.WriteString(":")
		sb.WriteString(m.Raw)
	}
	sb.WriteString("}")
	return sb.String()
}

func hashFor(alg string) (crypto.Hash, []byte, func([]byte) []byte) {
	switch alg[len(alg)-3:] {
	case "256":
		return crypto.SHA256, nil, func(b []byte) []byte { h := sha256.Sum256(b); return h[:] }
	case "384":
		return crypto.SHA384, nil, func(b []byte) []byte { h := sha512.Sum384(b); return h[:] }
	default:
		return crypto.SHA512, nil, func(b []byte) []byte { h := sha512.Sum512(b); return h[:] }
	}
}

// rawSign signs input with the named JWS algorithm using crypto/* directly. nil if the key type
// does not admit the algorithm.
func rawSign(alg string, key crypto.Signer, input []byte) []byte {
	if len(alg) < 5 {
		return nil
	}
	h, _, sum := hashFor(alg)
	d := sum(input)
	switch alg[:2] {
	case "HS":
		// the classic confusion: HMAC keyed with the (public) SubjectPublicKeyInfo of the leaf
		pub, err := x509.MarshalPKIXPublicKey(key.Public())
		if err != nil {
			return nil
		}
		m := hmac.New(sha256.New, pub)
		m.Write(input)
		return m.Sum(nil)
	case "PS":
		k, ok := key.(*rsa.PrivateKey)
		if !ok {
			return nil
		}
		s, err := rsa.SignPSS(rand.Reader, k, h, d, &rsa.PSSOptions{SaltLength: rsa.PSSSaltLengthEqualsHash})
		if err != nil {
			return nil
		}
		return s
	case "RS":
		k, ok := key.(*rsa.PrivateKey)
		if !ok {
			return nil
		}
		s, err := rsa.SignPKCS1v15(rand.Reader, k, h, d)
		if err != nil {
			return nil
		}
		return s
	case "ES":
		k, ok := key.(*ecdsa.PrivateKey)
		if !ok {
			return nil
		}
		r, s, err := ecdsa.Sign(rand.Reader, k, d)
		if err != nil {
			return nil
		}
		// JWS: fixed-width r || s, width from the *declared* algorithm
		n := map[string]int{"ES256": 32, "ES384": 48, "ES512": 66}[alg]
		rb, sb := r.Bytes(), s.Bytes()
		if len(rb) > n || len(sb) > n {
			// key larger than the declared algorithm's width: emit natural width (will be rejected by length)
			n = (k.Curve.Params().BitSize + 7) / 8
		}
		out := make([]byte, 2*n)
		copy(out[n-len(rb):n], rb)
		copy(out[2*n-len(sb):], sb)
		return out
	}
	return nil
}

// jwtVerifyOracle: does sig verify over input for the JWS algorithm name under pub, following the
// rules of RFC 7518 as golang-jwt implements them (key type gate, fixed ECDSA width, PSS auto salt)
func jwtVerifyOracle(alg string, pub any, input, sig []byte) bool {
	if len(alg) != 5 {
		return false
	}
	h, _, sum := hashFor(alg)
	d := sum(input)
	switch alg[:2] {
	case "PS":
		k, ok := pub.(*rsa.PublicKey)
		if !ok {
			return false
		}
		return rsa.VerifyPSS(k, h, d, sig, &rsa.PSSOptions{SaltLength: rsa.PSSSaltLengthAuto}) == nil
	case "ES":
		k, ok := pub.(*ecdsa.PublicKey)
		if !ok {
			return false
		}
		n := map[string]int{"ES256": 32, "ES384": 48, "ES512": 66}[alg]
		if n == 0 || len(sig) != 2*n {
			return false
		}
		r := new(big.Int).SetBytes(sig[:n])
		s := new(big.Int).SetBytes(sig[n:])
		return ecdsa.Verify(k, d, r, s)
	}
	return false
}

type builtJWS struct {
	Bytes        []byte
	ProtectedSeg string
	PayloadSeg   string
	SigSeg       string
	X5c          [][]byte
	Agent        string
	Tst          []byte
	OuterOK      bool
}

func (b *jwsBuild) build() *builtJWS {
	out := &builtJWS{Agent: b.Agent, Tst: b.Tst}
	if b.ProtectedSeg != nil {
		out.ProtectedSeg = *b.ProtectedSeg
	} else {
		out.ProtectedSeg = b64u([]byte(b.protectedJSON()))
	}
	if b.PayloadSeg != nil {
		out.PayloadSeg = *b.PayloadSeg
	} else {
		out.PayloadSeg = b64u(b.Payload)
	}
	input := []byte(out.ProtectedSeg + "." + out.PayloadSeg)
	var sig []byte
	if b.SignAlg != "" && b.SignAlg != "none" {
		key := b.SignKey
		if key != nil {
			sig = rawSign(b.SignAlg, key.Priv, input)
		}
	}
	if b.SigMutate != nil {
		sig = b.SigMutate(sig)
	}
	if b.SigSeg != nil {
		out.SigSeg = *b.SigSeg
	} else {
		out.SigSeg = b64u(sig)
	}
	out.X5c = b.X5cRaw
	if out.X5c == nil {
		for _, c := range b.Chain {
			out.X5c = append(out.X5c, c.Raw)
		}
	}
	if b.OuterJSON != nil {
		out.Bytes = []byte(*b.OuterJSON)
		return out
	}
	var x5c []string
	for _, d := range out.X5c {
		x5c = append(x5c, jsonStr(base64.StdEncoding.EncodeToString(d)))
	}
	hdr := `"x5c":[` + strings.Join(x5c, ",") + `]`
	if b.Agent != "" {
		hdr += `,"io.cncf.notary.signingAgent":` + jsonStr(b.Agent)
	}
	if b.Tst != nil {
		hdr += `,"io.cncf.notary.timestampSignature":` + jsonStr(base64.StdEncoding.EncodeToString(b.Tst))
	}
	p, pr, h, s := `"payload":`+jsonStr(out.PayloadSeg), `"protected":`+jsonStr(out.ProtectedSeg), `"header":{`+hdr+`}`, `"signature":`+jsonStr(out.SigSeg)
	switch b.OuterStyle {
	case "reordered":
		out.Bytes = []byte("{" + s + "," + h + "," + pr + "," + p + "}")
	case "whitespace":
		out.Bytes = []byte("\n {\t" + p + " ,\n" + pr + " , " + h + " ,\r\n " + s + " }\n\n")
	case "extra-key":
		out.Bytes = []byte("{" + p + "," + pr + `,"unknown":{"a":[1,2,3]},` + h + "," + s + "}")
	case "dup-payload-first":
		// a duplicate top-level member: the last one wins in encoding/json
		out.Bytes = []byte(`{"payload":"e30",` + p + "," + pr + "," + h + "," + s + "}")
	default:
		out.Bytes = []byte("{" + p + "," + pr + "," + h + "," + s + "}")
	}
	return out
}

// ---------------------------------------------------------------------------------------------
// abstraction

func tokBytes(b []byte) string {
	if len(b) <= 48 {
		return hex.EncodeToString(b)
	}
	h := sha256.Sum256(b)
	return fmt.Sprintf("sha256:%s:%d", hex.EncodeToString(h[:12]), len(b))
}

// canonical token of a JSON value as Go decodes it into interface{} (numbers become float64)
func decodedToken(raw string) string {
	var v any
	if err := json.Unmarshal([]byte(raw), &v); err != nil {
		return "undecodable"
	}
	return canonAny(v)
}

// canonical token with exact number literals
func exactToken(raw string) string {
	d := json.NewDecoder(strings.NewReader(raw))
	d.UseNumber()
	var v any
	if err := d.Decode(&v); err != nil {
		return "undecodable"
	}
	return canonAny(v)
}

// canonAny: canonical token of a decoded JSON value; numbers are rendered as exact rationals so that
// 1.5e3 and 1500 are the same token while 9007199254740993 and 9007199254740992 are not
func canonAny(v any) string {
	switch x := v.(type) {
	case nil:
		return "null"
	case bool:
		return fmt.Sprint(x)
	case string:
		return jsonStr(x)
	case float64:
		r := new(big.Rat)
		if r.SetFloat64(x) == nil {
			return fmt.Sprintf("num:%v", x)
		}
		return "num:" + r.String()
	case json.Number:
		r, ok := new(big.Rat).SetString(string(x))
		if !ok {
			return "num?:" + string(x)
		}
		return "num:" + r.String()
	case int:
		return fmt.Sprintf("num:%d/1", x)
	case int64:
		return fmt.Sprintf("num:%d/1", x)
	case []any:
		p := make([]string, len(x))
		for i, e := range x {
			p[i] = canonAny(e)
		}
		return "[" + strings.Join(p, ",") + "]"
	case map[string]any:
		keys := make([]string, 0, len(x))
		for k := range x {
			keys = append(keys, k)
		}
		sort.Strings(keys)
		p := make([]string, len(keys))
		for i, k := range keys {
			p[i] = jsonStr(k) + ":" + canonAny(x[k])
		}
		return "{" + strings.Join(p, ",") + "}"
	}
	b, err := json.Marshal(v)
	if err != nil {
		return fmt.Sprintf("unmarshalable:%T", v)
	}
	return string(b)
}

// orderedMembers parses a JSON text: kind "bad" | "null" | "obj" with the ordered member list
func orderedMembers(text []byte) (string, []jMember) {
	d := json.NewDecoder(bytes.NewReader(text))
	d.UseNumber()
	tok, err := d.Token()
	if err != nil {
		return "bad", nil
	}
	if tok == nil {
		// null; must be the whole document
		if _, err := d.Token(); err == nil {
			return "bad", nil
		}
		if !json.Valid(text) {
			return "bad", nil
		}
		return "null", nil
	}
	if dl, ok := tok.(json.Delim); !ok || dl != '{' {
		return "bad", nil
	}
	if !json.Valid(text) {
		return "bad", nil
	}
	var ms []jMember
	for d.More() {
		kt, err := d.Token()
		if err != nil {
			return "bad", nil
		}
		k, ok := kt.(string)
		if !ok {
			return "bad", nil
		}
		var raw json.RawMessage
		if err := d.Decode(&raw); err != nil {
			return "bad", nil
		}
		ms = append(ms, jMember{Key: k, Raw: string(raw)})
	}
	return "obj", ms
}

func absHVal(raw string) map[string]any {
	t := strings.TrimSpace(raw)
	switch {
	case t == "null":
		return map[string]any{"t": "null"}
	case strings.HasPrefix(t, `"`):
		var s string
		if err := json.Unmarshal([]byte(t), &s); err != nil {
			return map[string]any{"t": "other"}
		}
		out := map[string]any{"t": "str", "s": s, "time": nil}
		var tm time.Time
		if err := tm.UnmarshalJSON([]byte(t)); err == nil {
			out["time"] = tsec(tm)
		}
		return out
	case strings.HasPrefix(t, "["):
		var elems []json.RawMessage
		if err := json.Unmarshal([]byte(t), &elems); err != nil {
			return map[string]any{"t": "other"}
		}
		es := []any{}
		for _, e := range elems {
			et := strings.TrimSpace(string(e))
			switch {
			case et == "null":
				es = append(es, nil)
			case strings.HasPrefix(et, `"`):
				var s string
				json.Unmarshal(e, &s)
				es = append(es, s)
			default:
				es = append(es, map[string]any{"other": true})
			}
		}
		return map[string]any{"t": "arr", "elems": es}
	}
	return map[string]any{"t": "other"}
}

func foldTwin(key string) any {
	for _, h := range jwsHeaderKeyList {
		if key != h && strings.EqualFold(key, h) {
			return h
		}
	}
	return nil
}

type jwsOuter struct {
	Payload   string `json:"payload"`
	Protected string `json:"protected"`
	Header    struct {
		TimestampSignature []byte   `json:"io.cncf.notary.timestampSignature,omitempty"`
		CertChain          [][]byte `json:"x5c"`
		SigningAgent       string   `json:"io.cncf.notary.signingAgent,omitempty"`
	} `json:"header"`
	Signature string `json:"signature"`
}

// absJWS computes the model input from envelope bytes (outer container decoded with encoding/json
// into a mirror of the documented JWS-JSON layout). ok=false: the container itself does not decode.
func absJWS(envBytes []byte, ders *interner) (map[string]any, []*x509.Certificate, bool) {
	var o jwsOuter
	if err := json.Unmarshal(envBytes, &o); err != nil {
		return nil, nil, false
	}
	env := map[string]any{
		"protDot": strings.Contains(o.Protected, "."), "payDot": strings.Contains(o.Payload, "."), "sigDot": strings.Contains(o.Signature, "."),
		"agent": o.Header.SigningAgent, "tst": tokBytes(o.Header.TimestampSignature),
	}
	// protected
	prot := map[string]any{"kind": "bad"}
	if raw, err := base64.RawURLEncoding.DecodeString(o.Protected); err == nil {
		kind, ms := orderedMembers(raw)
		prot["kind"] = kind
		if kind == "obj" {
			members := []any{}
			for _, m := range ms {
				members = append(members, map[string]any{"key": m.Key, "val": absHVal(m.Raw), "decoded": decodedToken(m.Raw), "exact": exactToken(m.Raw), "foldTwinOf": foldTwin(m.Key)})
			}
			prot["members"] = members
		}
	}
	env["prot"] = prot
	// payload
	pay, perr := base64.RawURLEncoding.DecodeString(o.Payload)
	env["payloadB64ok"] = perr == nil
	env["payload"] = tokBytes(pay)
	env["payloadLen"] = len(pay)
	claimsOK := false
	if perr == nil {
		d := json.NewDecoder(bytes.NewReader(pay))
		d.UseNumber()
		var m map[string]any
		claimsOK = d.Decode(&m) == nil
	}
	env["claimsOK"] = claimsOK
	sig, serr := base64.RawURLEncoding.DecodeString(o.Signature)
	env["sigB64ok"] = serr == nil
	env["sigLen"] = len(sig)
	// certificates
	x5c := []any{}
	var certs []*x509.Certificate
	allOK := true
	var leafPub any
	for i, d := range o.Header.CertChain {
		c, err := x509.ParseCertificate(d)
		if err != nil {
			x5c = append(x5c, nil)
			allOK = false
			continue
		}
		if i == 0 {
			leafPub = c.PublicKey
		}
		x5c = append(x5c, ders.id(c.Raw))
		certs = append(certs, c)
	}
	env["x5c"] = x5c
	env["leafKey"] = absKey(leafPub)
	sigok := map[string]any{}
	input := []byte(o.Protected + "." + o.Payload)
	for _, a := range []string{"PS256", "PS384", "PS512", "ES256", "ES384", "ES512"} {
		sigok[a] = serr == nil && leafPub != nil && jwtVerifyOracle(a, leafPub, input, sig)
	}
	env["sigok"] = sigok
	if !allOK {
		certs = nil
	}
	return env, certs, true
}
