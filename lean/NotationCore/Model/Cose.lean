import NotationCore.Model.Base
/-!
  Model of the read side of `signature/cose` (`envelope.Verify`, `envelope.Content`, `payload`,
  `signerInfo`, `parseProtectedHeaders`, `validateCritHeaders`, `parseTime`,
  `generateExtendedAttributes`) and of the slice of go-cose's `Sign1Message.Verify` that decides
  accept/reject (`ensureVerificationAlgorithm`, payload presence, signature check).

  Primitive: go-cose's `Sign1Message.UnmarshalCBOR` (container, label types, duplicate labels,
  `crit` well-formedness and presence of every critical label, content-type syntax, non-empty
  signature).  The model receives the protected header as the list of (label, typed value)
  entries that decoding yields, including the *raw* CBOR tag number of time values.
-/
namespace NotationCore.Cose
open NotationCore Base Algorithm

inductive Label where
  | int (i : Int)
  | text (s : String)
deriving Repr, DecidableEq, Inhabited

inductive CVal where
  | int (i : Int)
  | text (s : String)
  /-- decoded to `time.Time` (CBOR tag 0 or 1); `rawTag` is the tag number in the bytes -/
  | time (t : Time) (rawTag : Nat)
  /-- array of labels (the `crit` header after go-cose validated it) -/
  | labels (l : List Label)
  | other
deriving Repr, DecidableEq, Inhabited

structure Entry where
  label : Label
  val : CVal
  /-- canonical token of the decoded value (for extended attributes) -/
  tok : String
deriving Repr, DecidableEq, Inhabited

/-- one element of the unprotected `x5chain` array -/
inductive X5Elem where
  | notBytes
  | bytes (cert : Option Nat)      -- `none`: does not parse as a certificate
deriving Repr, DecidableEq, Inhabited

structure Env where
  prot : List Entry               -- protected header entries (labels unique)
  /-- unprotected label 33: `none` = absent or not an array -/
  x5c : Option (List X5Elem)
  leafKey : Key
  payloadNil : Bool
  payload : String
  payloadLen : Nat
  sigLen : Nat
  /-- signature verifies over Sig_structure("Signature1", protected bytes, "", payload) under the
      leaf key with the algorithm dictated by that key -/
  sigok : Bool
  agent : String                  -- "" unless the unprotected value is a text string
  tst : String                    -- token; "" unless the unprotected value is a byte string
deriving Repr, Inhabited

def lAlg : Label := .int 1
def lCrit : Label := .int 2
def lCty : Label := .int 3
def lExpiry : Label := .text "io.cncf.notary.expiry"
def lScheme : Label := .text "io.cncf.notary.signingScheme"
def lSigningTime : Label := .text "io.cncf.notary.signingTime"
def lAuthSigningTime : Label := .text "io.cncf.notary.authenticSigningTime"

def get (es : List Entry) (l : Label) : Option CVal := (es.find? (fun e => e.label == l)).map (·.val)

/-- `validateCritHeaders.systemHeaders` (regenerated) -/
def isSystem (l : Label) : Bool :=
  match l with
  | .int i => Generated.coseSystemIntLabels.contains i
  | .text s => Generated.coseSystemTextLabels.contains s

/-- `signingSchemeTimeLabelMap[scheme]` (regenerated) -/
def timeLabelOf (scheme : String) : Option Label :=
  (Generated.coseSchemeTimeLabel.lookup scheme).map Label.text

/-- `parseTime(headerMap, label, protected)` -/
def parseTime (es : List Entry) (l : Label) : Option Time :=
  match get es l with
  | some (.time t tag) => if tag == 1 then some t else none
  | _ => none

def critLabels (es : List Entry) : List Label :=
  match get es lCrit with
  | some (.labels l) => l
  | _ => []

/-- headers that must be marked critical -/
def mustCrit (es : List Entry) (scheme : String) : List Label :=
  [lScheme] ++ (if scheme == schemeAuthority then [lAuthSigningTime] else []) ++
  (if (get es lExpiry).isSome then [lExpiry] else [])

def toAKey : Label → AKey
  | .int i => .int i
  | .text s => .text s

/-- `envelope.Content()` of the COSE envelope -/
def content (e : Env) : Out Content :=
  -- payload(): content type present and a text string
  match get e.prot lCty with
  | some (.text cty) =>
    if e.sigLen == 0 then .err .invalidSignature
    else
      -- validateCritHeaders
      match get e.prot lScheme with
      | some (.text scheme) =>
        let crit := critLabels e.prot
        if !(mustCrit e.prot scheme).all (fun l => crit.contains l) then .err .invalidSignature
        else
          -- algorithm
          match get e.prot lAlg with
          | some (.int a) =>
            match coseAlgToAlg a with
            | none => .err .invalidSignature
            | some alg =>
              match timeLabelOf scheme with
              | none => .err .invalidSignature
              | some tl =>
                match parseTime e.prot tl with
                | none => .err .invalidSignature
                | some st =>
                  let expiryR : Option Time :=
                    if (get e.prot lExpiry).isSome then parseTime e.prot lExpiry else some zeroT
                  match expiryR with
                  | none => .err .invalidSignature
                  | some expiry =>
                    match e.x5c with
                    | none => .err .invalidSignature
                    | some [] => .err .invalidSignature
                    | some elems =>
                      if elems.any (fun x => match x with | .bytes (some _) => false | _ => true) then .err .invalidSignature
                      else
                        let ext := e.prot.filter (fun en => !isSystem en.label)
                        .val { payload := e.payload, payloadLen := e.payloadLen, cty := cty, scheme := scheme,
                               signingTime := st, expiry := expiry,
                               extAttrs := ext.map (fun en => { key := toAKey en.label, critical := crit.contains en.label, value := en.tok }),
                               alg := alg,
                               chain := elems.filterMap (fun x => match x with | .bytes c => c | .notBytes => none),
                               sigLen := e.sigLen, agent := e.agent, tst := e.tst }
          | _ => .err .invalidSignature
      | _ => .err .invalidSignature
  | _ => .err .invalidSignature

/-- the COSE algorithm dictated by the leaf key (`getSignatureAlgorithm(cert)`) -/
def keyCoseAlg (k : Key) : Option Int := (extractKeySpec k).bind coseAlgOfKeySpec

/-- `envelope.Verify()` of the COSE envelope -/
def verify (e : Env) : Out Content :=
  match e.x5c with
  | some (.bytes (some _) :: _) =>
    match keyCoseAlg e.leafKey with
    | none => .err .invalidSignature
    | some ka =>
      if e.payloadNil then .err .integrity
      else if e.sigLen == 0 then .err .integrity
      else match get e.prot lAlg with
        | some (.int a) =>
          if a != ka then .err .integrity
          else if !e.sigok then .err .integrity
          else content e
        | _ => .err .integrity
  | _ => .err .invalidSignature

end NotationCore.Cose
