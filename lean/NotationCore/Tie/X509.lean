import NotationCore.Generated.Tables
import NotationCore.Generated.Shape
/-! Tie lemmas (X509): facts extracted from the current Go source equal the facts the hand-written model was written for. -/
namespace NotationCore.Tie
open NotationCore.Generated

/-- `validateSigningTime`: bounds are inclusive (Before / After, not !After / !Before) — Model.Chain.validateSigningTime -/
theorem x509_validateSigningTime :
    Shape.x509_validateSigningTime = ["signingTime.Before(cert.NotBefore)", "signingTime.After(cert.NotAfter)"] := rfl

/-- the only public key types `ExtractKeySpec` knows — shape of `Model.Algorithm.extractKeySpec` -/
theorem extract_key_types : extractKeyTypes = ["ecdsa.PublicKey", "rsa.PublicKey"] := rfl

end NotationCore.Tie
