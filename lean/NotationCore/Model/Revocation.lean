import NotationCore.Model.Ocsp
import NotationCore.Model.Chain
/-!
  Model of `revocation/revocation.go` (`ValidateContext`, sequential meaning) and
  `revocation/ocsp/ocsp.go` (`CheckStatus`).  The goroutine structure is `Model.Conc` (C17);
  here each certificate's check is the pure function the goroutine body computes.
-/
namespace NotationCore.Revocation
open NotationCore

/-- a non-root certificate as the revocation code sees it -/
structure Cert where
  serial : Int
  ocsp : List Url
  crlDPs : List Url
  hasFreshest : Bool
deriving Repr, DecidableEq, Inhabited

def Cert.toCrl (c : Cert) : Crl.RCert := { serial := c.serial, crlDPs := c.crlDPs, hasFreshest := c.hasFreshest }

/-- everything the network and the clock can do; one per (certificate, issuer) pair because OCSP
    responses and CRL signatures are checked against that certificate's issuer -/
structure Env where
  ocsp : Ocsp.Env
  crl : Crl.Env

def nonRevokable : CertResult :=
  { result := .nonRevokable, servers := [{ result := .nonRevokable, server := "", method := .unknown, err := "" }],
    method := .unknown }

/-- body of the per-certificate goroutine of `ValidateContext` -/
def certCheck (env : Env) (c : Cert) (st : Time) : CertResult :=
  if !c.ocsp.isEmpty then
    let o := Ocsp.certCheckStatus env.ocsp c.ocsp st
    if o.result == .unknown && !c.crlDPs.isEmpty then
      let k := Crl.certCheckStatus env.crl c.toCrl st
      { result := k.result, servers := o.servers ++ k.servers, method := .ocspFallbackCrl }
    else o
  else if !c.crlDPs.isEmpty then Crl.certCheckStatus env.crl c.toCrl st
  else nonRevokable

/-- URLs contacted, in order, tagged by source -/
inductive Contact where
  | ocsp (u : Url)
  | crl (u : Url)
deriving Repr, DecidableEq

def certTrace (env : Env) (c : Cert) (st : Time) : List Contact :=
  if !c.ocsp.isEmpty then
    let o := Ocsp.certCheckStatus env.ocsp c.ocsp st
    let t := (Ocsp.contacted env.ocsp st c.ocsp).map Contact.ocsp
    if o.result == .unknown && !c.crlDPs.isEmpty then
      t ++ (Crl.contacted env.crl c.toCrl st c.crlDPs).map Contact.crl
    else t
  else if !c.crlDPs.isEmpty then (Crl.contacted env.crl c.toCrl st c.crlDPs).map Contact.crl
  else []

/-- body of the per-certificate goroutine of the standalone `ocsp.CheckStatus` -/
def certCheckOcspOnly (env : Env) (c : Cert) (st : Time) : CertResult :=
  Ocsp.certCheckStatus env.ocsp c.ocsp st

/-- root slot of the standalone entry point: RevocationMethod left at its zero value -/
def rootResultStandalone : CertResult := nonRevokable

inductive Err where
  | invalidChain
deriving Repr, DecidableEq

/-- results for the non-root certificates `cs` (each with its own environment), then the root -/
def results (check : Env → Cert → Time → CertResult) (cs : List (Env × Cert)) (st : Time) : List CertResult :=
  cs.map (fun p => check p.1 p.2 st) ++ [nonRevokable]

/-- `ValidateContext`: `chainOK` is the verdict of `x509util.ValidateChain` for the configured
    purpose (C03/C14 models); `n` = len(chain) = cs.length + 1 when n ≥ 1 -/
def validate (chainLen : Nat) (chainOK : Bool) (cs : List (Env × Cert)) (st : Time) : Except Err (List CertResult) :=
  if chainLen == 0 then .error .invalidChain
  else if !chainOK then .error .invalidChain
  else .ok (results certCheck cs st)

/-- `ocsp.CheckStatus` -/
def checkStatus (chainLen : Nat) (chainOK : Bool) (cs : List (Env × Cert)) (st : Time) : Except Err (List CertResult) :=
  if chainLen == 0 then .error .invalidChain
  else if !chainOK then .error .invalidChain
  else .ok (results certCheckOcspOnly cs st)

end NotationCore.Revocation
