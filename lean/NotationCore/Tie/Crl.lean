import NotationCore.Generated.Tables
import NotationCore.Generated.Shape
/-! Tie lemmas (Crl): facts extracted from the current Go source equal the facts the hand-written model was written for. -/
namespace NotationCore.Tie
open NotationCore.Generated

/-- CRL `validateCRL` — Model.Crl.validateCRL -/
theorem crl_validateCRL :
    Shape.crl_validateCRL =
      ["crl.NextUpdate.IsZero()", "now.After(crl.NextUpdate)", "ext.Id.Equal(oidIssuingDistributionPoint)",
       "ext.Id.Equal(oidDeltaCRLIndicator)"] := rfl

/-- CRL `validate`: delta number must be strictly greater, indicator must not exceed — Model.Crl.validate -/
theorem crl_validate :
    Shape.crl_validate =
      ["deltaCRL.Number.Cmp(baseCRL.Number) <= 0", "minimumBaseCRLNumber.Cmp(baseCRL.Number) > 0"] := rfl

/-- CRL `CertCheckStatus`: every failure inside the distribution-point loop `break`s (never
    `continue`s), a revocation `return`s — Model.Crl.loop -/
theorem crl_certCheckStatus_exits :
    Shape.crl_certCheckStatus_exits = ["break", "break", "break", "break", "return"] := rfl

/-- CRL `checkRevocation` — Model.Crl.checkRevocation -/
theorem crl_checkRevocation :
    Shape.crl_checkRevocation =
      ["revocationEntry.SerialNumber.Cmp(cert.SerialNumber) == 0", "!signingTime.IsZero()",
       "!extensions.invalidityDate.IsZero()", "signingTime.Before(extensions.invalidityDate)",
       "latestTempRevokedEntry.RevocationTime.Before(revocationEntry.RevocationTime)"] := rfl

end NotationCore.Tie
