import NotationCore.Model.Sign
import NotationCore.Proofs.Envelope
/-!
  C16 — invalid sign requests never produce an envelope.
  (With `C08_valid_request_signs` below: the valid requests are exactly the ones that do.)
-/
namespace NotationCore.Props
open NotationCore Base Algorithm Sign

/-- the key collides with a header defined by the envelope specification -/
def Collides (fmt : Fmt) (k : ReqKey) : Prop :=
  match fmt, k with
  | .jws, .str _ folds => folds = true
  | .cose, .str s _ => s ∈ specLabelsCoseText
  | .cose, .int i => i ∈ specLabelsCoseInt
  | _, _ => False

/-- the attribute keys are acceptable: every key representable in the format, none colliding with a
    specification header, no key repeated (after the format's normalisation) -/
def KeysOK (fmt : Fmt) (ext : List ReqAttr) : Prop :=
  (∀ a ∈ ext, (normKey fmt a.key).isSome = true) ∧ (∀ a ∈ ext, ¬ Collides fmt a.key) ∧
  (ext.filterMap (fun a => normKey fmt a.key)).Nodup

theorem extOK_iff (fmt : Fmt) (ext : List ReqAttr) (seen : List AKey) :
    extOK fmt ext seen = true ↔
      (∀ a ∈ ext, (normKey fmt a.key).isSome = true) ∧ (∀ a ∈ ext, ¬ Collides fmt a.key) ∧
      (ext.filterMap (fun a => normKey fmt a.key)).Nodup ∧
      (∀ k ∈ ext.filterMap (fun a => normKey fmt a.key), k ∉ seen) := by
  induction ext generalizing seen with
  | nil => simp [extOK]
  | cons a as ih =>
    cases fmt with
    | jws =>
      cases hk : a.key with
      | str s folds =>
        simp only [extOK, hk, Bool.and_eq_true, Bool.not_eq_eq_eq_not, Bool.not_true, ih, List.mem_cons,
          forall_eq_or_imp, normKey, Option.isSome_some, true_and, Collides, List.filterMap_cons,
          List.nodup_cons, List.mem_cons]
        constructor
        · rintro ⟨⟨h1, h2⟩, h3, h4, h5, h6⟩
          refine ⟨h3, ⟨by simp [h2], h4⟩, ⟨?_, h5⟩, ?_, ?_⟩
          · intro hm; exact h6 _ hm (by simp)
          · simpa using h1
          · intro k hk'; intro hs; exact h6 k hk' (by simp [hs])
        · rintro ⟨h3, ⟨h2, h4⟩, ⟨h7, h5⟩, h1, h6⟩
          refine ⟨⟨by simpa using h1, by simpa using h2⟩, h3, h4, h5, ?_⟩
          intro k hk' hs
          rcases hs with rfl | hs
          · exact h7 hk'
          · exact h6 k hk' hs
      | int i => simp [extOK, hk, normKey]
      | unhashable => simp [extOK, hk, normKey]
      | other => simp [extOK, hk, normKey]
    | cose =>
      cases hk : a.key with
      | str s folds =>
        simp only [extOK, hk, Bool.and_eq_true, Bool.not_eq_eq_eq_not, Bool.not_true, ih, List.mem_cons,
          forall_eq_or_imp, normKey, Option.isSome_some, true_and, Collides, List.filterMap_cons,
          List.nodup_cons, List.mem_cons]
        constructor
        · rintro ⟨⟨h1, h2⟩, h3, h4, h5, h6⟩
          refine ⟨h3, ⟨by simpa using h1, h4⟩, ⟨?_, h5⟩, ?_, ?_⟩
          · intro hm; exact h6 _ hm (by simp)
          · simpa using h2
          · intro k hk'; intro hs; exact h6 k hk' (by simp [hs])
        · rintro ⟨h3, ⟨h2, h4⟩, ⟨h7, h5⟩, h1, h6⟩
          refine ⟨⟨by simpa using h2, by simpa using h1⟩, h3, h4, h5, ?_⟩
          intro k hk' hs
          rcases hs with rfl | hs
          · exact h7 hk'
          · exact h6 k hk' hs
      | int i =>
        simp only [extOK, hk, Bool.and_eq_true, Bool.not_eq_eq_eq_not, Bool.not_true, ih, List.mem_cons,
          forall_eq_or_imp, normKey, Option.isSome_some, true_and, Collides, List.filterMap_cons,
          List.nodup_cons, List.mem_cons]
        constructor
        · rintro ⟨⟨h1, h2⟩, h3, h4, h5, h6⟩
          refine ⟨h3, ⟨by simpa using h1, h4⟩, ⟨?_, h5⟩, ?_, ?_⟩
          · intro hm; exact h6 _ hm (by simp)
          · simpa using h2
          · intro k hk'; intro hs; exact h6 k hk' (by simp [hs])
        · rintro ⟨h3, ⟨h2, h4⟩, ⟨h7, h5⟩, h1, h6⟩
          refine ⟨⟨by simpa using h2, by simpa using h1⟩, h3, h4, h5, ?_⟩
          intro k hk' hs
          rcases hs with rfl | hs
          · exact h7 hk'
          · exact h6 k hk' hs
      | unhashable => simp [extOK, hk, normKey]
      | other => simp [extOK, hk, normKey]

theorem extOK_keysOK (fmt : Fmt) (ext : List ReqAttr) : extOK fmt ext [] = true ↔ KeysOK fmt ext := by
  rw [extOK_iff]
  unfold KeysOK
  simp

/-- the signer delivers a usable key and a chain that conforms at the (truncated) signing time and
    whose leaf key is the declared one -/
def SignerOK (r : Req) : Prop :=
  ∃ s ks ci, r.signer = some s ∧ s.keySpec = some ks ∧ signatureAlgorithm ks ≠ 0 ∧ s.signs = true ∧ s.sigLen ≠ 0 ∧
    s.chain = some ci ∧ validateCertificateChain ci (some (truncSec r.signingTime)) (signatureAlgorithm ks) = true

/-- a valid request, spelled out (explicit and decidable) -/
def ValidRequest (fmt : Fmt) (r : Req) : Prop :=
  r.payloadLen ≠ 0 ∧ (fmt = .jws → r.jwsObject = true) ∧ (fmt = .cose → r.ctyOK = true) ∧
  truncSec r.signingTime ≠ zeroT ∧ (truncSec r.expiry = zeroT ∨ truncSec r.signingTime < truncSec r.expiry) ∧
  r.timesEncodable = true ∧
  (r.scheme = schemeX509 ∨ r.scheme = schemeAuthority) ∧
  SignerOK r ∧ KeysOK fmt r.ext ∧ (∀ a ∈ r.ext, a.encodable = true) ∧
  (r.scheme = schemeX509 → r.ts ≠ .fails)

theorem validTimes_iff (st ex : Time) :
    validateSigningAndExpiryTime st ex = true ↔ (st ≠ zeroT ∧ (ex = zeroT ∨ st < ex)) := by
  constructor
  · exact Proofs.Envelope.validateSigningAndExpiryTime_inv st ex
  · rintro ⟨h1, h2⟩
    unfold validateSigningAndExpiryTime isZeroT
    simp only [Bool.and_eq_true, Bool.not_eq_eq_eq_not, Bool.not_true, beq_eq_false_iff_ne, ne_eq,
      Bool.and_eq_false_imp, Bool.or_eq_false_iff, decide_eq_false_iff_not, Int.not_lt]
    refine ⟨h1, ?_⟩
    intro hz
    rcases h2 with h2 | h2
    · exact absurd h2 hz
    · constructor <;> omega

/-- an empty chain never passes chain validation -/
theorem emptyChain_invalid (st : Option Time) (alg : Nat) : validateCertificateChain emptyChain st alg = false := by
  cases st <;> rfl

/-- a delivered chain that validates is the signer's own (the COSE stand-in for a nil chain never validates) -/
theorem deliveredChain_valid (fmt : Fmt) (s : Signer) (ci : ChainInfo) (st : Option Time) (alg : Nat)
    (h : deliveredChain fmt s = some ci) (hv : validateCertificateChain ci st alg = true) : s.chain = some ci := by
  unfold deliveredChain at h
  cases hc : s.chain with
  | some c => rw [hc] at h; simpa using h
  | none =>
    rw [hc] at h
    cases fmt with
    | jws => cases h
    | cose =>
      simp only [Option.some.injEq] at h
      rw [← h, emptyChain_invalid] at hv; cases hv

theorem deliveredChain_of_some (fmt : Fmt) (s : Signer) (ci : ChainInfo) (h : s.chain = some ci) :
    deliveredChain fmt s = some ci := by
  unfold deliveredChain; rw [h]

theorem prepare_ok_iff (fmt : Fmt) (r : Req) (p : Prepared) :
    prepare fmt r = .ok p ↔
      (r.payloadLen ≠ 0 ∧ validateSigningAndExpiryTime (truncSec r.signingTime) (truncSec r.expiry) = true ∧
       r.signer = some p.s ∧ p.s.keySpec = some p.ks ∧ r.scheme ≠ "" ∧ signatureAlgorithm p.ks ≠ 0 ∧
       (r.scheme = schemeX509 ∨ r.scheme = schemeAuthority) ∧ extOK fmt r.ext [] = true ∧ r.timesEncodable = true ∧
       (fmt = .jws → r.jwsObject = true) ∧ (fmt = .cose → r.ctyOK = true) ∧ (∀ a ∈ r.ext, a.encodable = true) ∧
       p.s.signs = true ∧ deliveredChain fmt p.s = some p.ci ∧ tsStep r = some p.tst ∧ (fmt = .cose → p.s.sigLen ≠ 0)) := by
  unfold prepare
  by_cases h1 : (r.payloadLen == 0) = true
  · simp [h1]; intro h; simp at h1; exact absurd h1 h
  · simp only [h1, Bool.false_eq_true, if_false]
    by_cases h2 : validateSigningAndExpiryTime (truncSec r.signingTime) (truncSec r.expiry) = true
    · simp only [h2, Bool.not_true, Bool.false_eq_true, if_false]
      cases hs : r.signer with
      | none => simp
      | some s =>
        simp only []
        cases hk : s.keySpec with
        | none =>
          simp only [reduceCtorEq, false_iff, not_and]
          intro _ _ he; cases he; intro hk'; rw [hk] at hk'; cases hk'
        | some ks =>
          simp only []
          by_cases h3 : (r.scheme == "") = true
          · simp only [h3, if_true, reduceCtorEq, false_iff, not_and]
            intro _ _ _ _ hne; exact absurd (by simpa using h3) hne
          · simp only [h3, Bool.false_eq_true, if_false]
            by_cases h4 : (signatureAlgorithm ks == 0) = true
            · simp only [h4, if_true, reduceCtorEq, false_iff, not_and]
              intro _ _ he hk' _ hne; cases he; rw [hk] at hk'; cases hk'; exact absurd (by simpa using h4) hne
            · simp only [h4, Bool.false_eq_true, if_false]
              by_cases h5 : (r.scheme == schemeX509 || r.scheme == schemeAuthority) = true
              · simp only [h5, Bool.not_true, Bool.false_eq_true, if_false]
                by_cases h6 : extOK fmt r.ext [] = true
                · simp only [h6, Bool.not_true, Bool.false_eq_true, if_false]
                  by_cases h7 : r.timesEncodable = true
                  · simp only [h7, Bool.not_true, Bool.false_eq_true, if_false]
                    by_cases h8 : (fmt == .jws && !r.jwsObject) = true
                    · simp only [h8, if_true, reduceCtorEq, false_iff, not_and]
                      intro _ _ _ _ _ _ _ _ _ hj
                      simp only [Bool.and_eq_true, beq_iff_eq, Bool.not_eq_eq_eq_not, Bool.not_true] at h8
                      rw [hj h8.1] at h8; cases h8.2
                    · simp only [h8, Bool.false_eq_true, if_false]
                      by_cases h9 : (fmt == .cose && !r.ctyOK) = true
                      · simp only [h9, if_true, reduceCtorEq, false_iff, not_and]
                        intro _ _ _ _ _ _ _ _ _ _ hc
                        simp only [Bool.and_eq_true, beq_iff_eq, Bool.not_eq_eq_eq_not, Bool.not_true] at h9
                        rw [hc h9.1] at h9; cases h9.2
                      · simp only [h9, Bool.false_eq_true, if_false]
                        by_cases h10 : (r.ext.all (·.encodable)) = true
                        · simp only [h10, Bool.not_true, Bool.false_eq_true, if_false]
                          by_cases h11 : s.signs = true
                          · simp only [h11, Bool.not_true, Bool.false_eq_true, if_false]
                            by_cases h12 : (fmt == .cose && s.sigLen == 0) = true
                            · simp only [h12, if_true, reduceCtorEq, false_iff, not_and]
                              intro _ _ he _ _ _ _ _ _ _ _ _ _ _ _ hsl
                              cases he
                              simp only [Bool.and_eq_true, beq_iff_eq] at h12
                              exact hsl h12.1 h12.2
                            · simp only [h12, Bool.false_eq_true, if_false]
                              cases hc : deliveredChain fmt s with
                              | none =>
                                simp only [reduceCtorEq, false_iff, not_and]
                                intro _ _ he _ _ _ _ _ _ _ _ _ _ hc'; cases he; rw [hc] at hc'; cases hc'
                              | some ci =>
                                simp only []
                                cases ht : tsStep r with
                                | none =>
                                  simp only [reduceCtorEq, false_iff, not_and]
                                  intro _ _ _ _ _ _ _ _ _ _ _ _ _ _ h; cases h
                                | some tst =>
                                  simp only [Except.ok.injEq]
                                  constructor
                                  · intro h; subst h
                                    refine ⟨by simpa using h1, trivial, rfl, hk, by simpa using h3, by simpa using h4, by simpa using h5, trivial, trivial, ?_, ?_, by simpa using h10, h11, hc, rfl, ?_⟩
                                    · intro hf; subst hf; simpa using h8
                                    · intro hf; subst hf; simpa using h9
                                    · intro hf hsl
                                      apply h12
                                      have : s.sigLen = 0 := hsl
                                      simp [hf, this]
                                  · rintro ⟨_, _, he, hk', _, _, _, _, _, _, _, _, _, hc', ht', _⟩
                                    obtain ⟨ps, pks, pci, ptst⟩ := p
                                    simp only [Option.some.injEq] at he ht'
                                    subst he
                                    rw [hk] at hk'; cases hk'
                                    rw [hc] at hc'; cases hc'
                                    subst ht'
                                    rfl
                          · simp only [h11, Bool.not_false, if_true, reduceCtorEq, false_iff, not_and]
                            intro _ _ he _ _ _ _ _ _ _ _ _ hs'; cases he; exact absurd hs' h11
                        · simp only [h10, Bool.not_false, if_true, reduceCtorEq, false_iff, not_and]
                          intro _ _ _ _ _ _ _ _ _ _ _ he; exact absurd (by simpa using he) h10
                  · simp only [h7, Bool.not_false, if_true, reduceCtorEq, false_iff, not_and]
                    intro _ _ _ _ _ _ _ _ he; exact he.elim
                · simp only [h6, Bool.not_false, if_true, reduceCtorEq, false_iff, not_and]
                  intro _ _ _ _ _ _ _ he; exact he.elim
              · simp only [h5, Bool.not_false, if_true, reduceCtorEq, false_iff, not_and]
                intro _ _ _ _ _ _ he; exact absurd (by simpa using he) h5
    · simp only [h2, Bool.not_false, if_true, reduceCtorEq, false_iff, not_and]
      intro _ he; exact he.elim

theorem finish_ok_iff (fmt : Fmt) (r : Req) (p : Prepared) (c : Content) :
    finish fmt r p = .ok c ↔
      (p.s.sigLen ≠ 0 ∧ validateCertificateChain p.ci (some (truncSec r.signingTime)) (signatureAlgorithm p.ks) = true ∧
       c = contentOf fmt r p.s p.ci (signatureAlgorithm p.ks) p.tst) := by
  unfold finish
  by_cases g1 : (p.s.sigLen == 0) = true
  · simp only [g1, if_true, reduceCtorEq, false_iff, not_and]
    intro h; exact absurd (by simpa using g1) h
  · simp only [g1, Bool.false_eq_true, if_false]
    by_cases g2 : validateCertificateChain p.ci (some (truncSec r.signingTime)) (signatureAlgorithm p.ks) = true
    · simp only [g2, Bool.not_true, Bool.false_eq_true, if_false, Result.ok.injEq, true_and]
      constructor
      · intro h; exact ⟨by simpa using g1, h.symm⟩
      · intro h; exact h.2.symm
    · simp only [g2, Bool.not_false, if_true, reduceCtorEq, false_iff, not_and]
      intro _ h; exact h.elim

theorem tsStep_some_iff (r : Req) : (∃ t, tsStep r = some t) ↔ (r.scheme = schemeX509 → r.ts ≠ .fails) := by
  unfold tsStep
  by_cases hx : (r.scheme == schemeX509) = true
  · simp only [hx, if_true]
    have : r.scheme = schemeX509 := by simpa using hx
    cases r.ts <;> simp [this]
  · simp only [hx, Bool.false_eq_true, if_false]
    have : r.scheme ≠ schemeX509 := by simpa using hx
    simp [this]

/-- **C16 / C08 (exactly the valid requests sign)**: signing succeeds iff the request is valid -/
theorem sign_ok_iff (fmt : Fmt) (r : Req) :
    (∃ c, sign fmt r = .ok c) ↔ ValidRequest fmt r := by
  unfold sign
  constructor
  · rintro ⟨c, h⟩
    cases hp : prepare fmt r with
    | error e => rw [hp] at h; cases h
    | ok p =>
      rw [hp] at h
      simp only [] at h
      obtain ⟨a1, a2, a3, a4, _, a6, a7, a8, a9, a10, a11, a12, a13, a14, a15⟩ := (prepare_ok_iff fmt r p).mp hp
      obtain ⟨b1, b2, _⟩ := (finish_ok_iff fmt r p c).mp h
      obtain ⟨t1, t2⟩ := (validTimes_iff _ _).mp a2
      exact ⟨a1, a10, a11, t1, t2, a9, a7, ⟨p.s, p.ks, p.ci, a3, a4, a6, a13, b1, deliveredChain_valid fmt p.s p.ci _ _ a14 b2, b2⟩, (extOK_keysOK fmt r.ext).mp a8, a12,
        (tsStep_some_iff r).mp ⟨p.tst, a15.1⟩⟩
  · rintro ⟨v1, v2, v3, v4, v5, v6, v7, ⟨s, ks, ci, s1, s2, s3, s4, s5, s6, s7⟩, v9, v10, v11⟩
    obtain ⟨tst, ht⟩ := (tsStep_some_iff r).mpr v11
    have hne : r.scheme ≠ "" := by
      rcases v7 with h | h <;> rw [h] <;> decide
    have hp : prepare fmt r = .ok { s := s, ks := ks, ci := ci, tst := tst } :=
      (prepare_ok_iff fmt r _).mpr ⟨v1, (validTimes_iff _ _).mpr ⟨v4, v5⟩, s1, s2, hne, s3, v7, (extOK_keysOK fmt r.ext).mpr v9, v6, v2, v3, v10, s4, deliveredChain_of_some fmt s ci s6, ht, fun _ => s5⟩
    rw [hp]
    exact ⟨_, (finish_ok_iff fmt r _ _).mpr ⟨s5, s7, rfl⟩⟩

def isPanic : Sign.Result → Bool
  | .panic _ => true
  | _ => false

/-- the model has no panic site left (the unhashable-key map lookup was repaired): `sign` never
    evaluates to `.panic` -/
theorem sign_not_panic (fmt : Fmt) (r : Req) : isPanic (sign fmt r) = false := by
  unfold sign
  cases prepare fmt r with
  | error e => rfl
  | ok p =>
    simp only [finish]
    split
    · rfl
    · split <;> rfl

/-- every way a request can be invalid, as the property lists them -/
def Invalid (fmt : Fmt) (r : Req) : Prop :=
  r.payloadLen = 0 ∨ (fmt = .jws ∧ r.jwsObject = false) ∨
  truncSec r.signingTime = zeroT ∨
  (truncSec r.expiry ≠ zeroT ∧ truncSec r.expiry ≤ truncSec r.signingTime) ∨
  (r.scheme ≠ schemeX509 ∧ r.scheme ≠ schemeAuthority) ∨
  r.signer = none ∨
  (∃ s, r.signer = some s ∧ (s.keySpec = none ∨ (∃ ks, s.keySpec = some ks ∧ signatureAlgorithm ks = 0) ∨
      s.signs = false ∨ s.chain = none ∨
      (∃ ks ci, s.keySpec = some ks ∧ s.chain = some ci ∧
        validateCertificateChain ci (some (truncSec r.signingTime)) (signatureAlgorithm ks) = false))) ∨
  ¬ KeysOK fmt r.ext

/-- **C16**: an invalid request yields an error — and, by construction of `Result`, an error
    carries no envelope bytes -/
theorem C16 (fmt : Fmt) (r : Req) (h : Invalid fmt r) : ∃ e stage, sign fmt r = .err e stage := by
  have hnot : ¬ ValidRequest fmt r := by
    rintro ⟨v1, v2, _, v4, v5, _, v7, ⟨s, ks, ci, s1, s2, s3, s4, _, s6, s7⟩, v9, _, _⟩
    rcases h with h | ⟨h1, h2⟩ | h | ⟨h1, h2⟩ | ⟨h1, h2⟩ | h | ⟨s', hs', h⟩ | h
    · exact v1 h
    · rw [v2 h1] at h2; cases h2
    · exact v4 h
    · rcases v5 with h' | h'
      · exact h1 h'
      · omega
    · rcases v7 with h' | h'
      · exact h1 h'
      · exact h2 h'
    · rw [s1] at h; cases h
    · rw [s1] at hs'; cases hs'
      rcases h with h | ⟨ks', hk, h⟩ | h | h | ⟨ks', ci', hk, hc, h⟩
      · rw [s2] at h; cases h
      · rw [s2] at hk; cases hk; exact s3 h
      · rw [s4] at h; cases h
      · rw [s6] at h; cases h
      · rw [s2] at hk; cases hk; rw [s6] at hc; cases hc; rw [s7] at h; cases h
    · exact h v9
  cases hr : sign fmt r with
  | ok c => exact absurd ((sign_ok_iff fmt r).mp ⟨c, hr⟩) hnot
  | err e stage => exact ⟨e, stage, rfl⟩
  | panic site =>
    have := sign_not_panic fmt r
    rw [hr] at this; cases this

/-- **C16 (never a panic)**: for every request whatsoever -/
theorem C16_never_panics (fmt : Fmt) (r : Req) : ∀ site, sign fmt r ≠ .panic site := by
  intro site hr
  have := sign_not_panic fmt r
  rw [hr] at this; cases this

/-- what "chain fails / leaf key does not match the declared key" means for the signer's chain -/
theorem C16_chain_clause (ci : ChainInfo) (st : Time) (alg : Nat) :
    validateCertificateChain ci (some st) alg = true →
      ∃ leaf rest, ci.certs = leaf :: rest ∧ Spec.Conforms .codeSigning ci.sigF ci.sigSelfF ci.certs (some st) ∧
        keyAlg leaf.key = some alg :=
  Proofs.Envelope.validateCertificateChain_inv ci (some st) alg

/-- **C16 (local signer)**: a local signer cannot be constructed from a private key that does not
    belong to the leaf certificate, from no certificates, or for an unapproved leaf key -/
theorem C16_signer (certs : List Chain.Cert) (keyMatchesLeaf : Bool) :
    (newLocalSigner certs keyMatchesLeaf).isSome = true ↔
      ∃ leaf rest, certs = leaf :: rest ∧ leaf.key ∈ Spec.approvedKeys ∧ keyMatchesLeaf = true := by
  cases certs with
  | nil => simp [newLocalSigner]
  | cons leaf rest =>
    simp only [newLocalSigner]
    have hk := Proofs.Chain.extractKeySpec_isSome leaf.key
    constructor
    · intro h
      cases he : extractKeySpec leaf.key with
      | none => rw [he] at h; cases h
      | some ks =>
        rw [he] at h
        refine ⟨leaf, rest, rfl, hk.mp (by rw [he]; rfl), ?_⟩
        cases keyMatchesLeaf with
        | true => rfl
        | false => simp at h
    · rintro ⟨l, r, h1, h2, h3⟩
      cases h1
      have := hk.mpr h2
      cases he : extractKeySpec leaf.key with
      | none => rw [he] at this; cases this
      | some ks => simp [h3]

/-- **C08 (content of a successful signing)** -/
theorem C08_content_of_request (fmt : Fmt) (r : Req) (c : Content) (h : sign fmt r = .ok c) :
    c.payload = r.payload ∧ c.payloadLen = r.payloadLen ∧ c.cty = r.cty ∧ c.scheme = r.scheme ∧
    c.signingTime = truncSec r.signingTime ∧ c.expiry = truncSec r.expiry ∧
    c.extAttrs = attrsOf fmt r.ext ∧ c.agent = r.agent ∧
    ∃ s ks ci, r.signer = some s ∧ s.keySpec = some ks ∧ s.chain = some ci ∧
      c.alg = signatureAlgorithm ks ∧ c.chain = ci.certs.map (·.id) := by
  unfold sign at h
  cases hp : prepare fmt r with
  | error e => rw [hp] at h; cases h
  | ok p =>
    rw [hp] at h
    simp only [] at h
    obtain ⟨_, _, a3, a4, _, _, _, _, _, _, _, _, _, a14, _⟩ := (prepare_ok_iff fmt r p).mp hp
    obtain ⟨_, b2, hc⟩ := (finish_ok_iff fmt r p c).mp h
    subst hc
    exact ⟨rfl, rfl, rfl, rfl, rfl, rfl, rfl, rfl, p.s, p.ks, p.ci, a3, a4, deliveredChain_valid fmt p.s p.ci _ _ a14 b2, rfl, rfl⟩

end NotationCore.Props
