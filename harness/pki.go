package main

// PKI factory: feature record -> real DER certificate, and the independent abstraction of a parsed
// certificate into the record the Lean model works on (crypto/x509 only; nothing from
// notation-core-go is consulted here).

import (
	"crypto"
	"crypto/ecdsa"
	"crypto/ed25519"
	"crypto/elliptic"
	"crypto/rand"
	"crypto/rsa"
	"crypto/sha1"
	"crypto/x509"
	"crypto/x509/pkix"
	"embed"
	"encoding/asn1"
	"encoding/pem"
	"fmt"
	"math/big"
	"sync"
	"time"
)

//go:embed keys/*.pem
var keyFS embed.FS

type Key struct {
	ID   string
	Priv crypto.Signer
}

var (
	keyMu   sync.Mutex
	keyPool = map[string]*Key{}
)

// getKey returns a key by id: "rsa2048-0", "ec256-3", "ed-0", "ec224-0".
func getKey(id string) *Key {
	keyMu.Lock()
	defer keyMu.Unlock()
	if k, ok := keyPool[id]; ok {
		return k
	}
	var priv crypto.Signer
	var kind string
	var n int
	if _, err := fmt.Sscanf(id, "rsa%d-%d", &n, new(int)); err == nil {
		kind = "rsa"
	} else if _, err := fmt.Sscanf(id, "ec%d-%d", &n, new(int)); err == nil {
		kind = "ec"
	} else {
		kind = "ed"
	}
	switch kind {
	case "rsa":
		b, err := keyFS.ReadFile("keys/" + id + ".pem")
		if err != nil {
			panic("no committed key " + id)
		}
		blk, _ := pem.Decode(b)
		k, err := x509.ParsePKCS1PrivateKey(blk.Bytes)
		if err != nil {
			panic(err)
		}
		priv = k
	case "ec":
		var c elliptic.Curve
		switch n {
		case 224:
			c = elliptic.P224()
		case 256:
			c = elliptic.P256()
		case 384:
			c = elliptic.P384()
		case 521:
			c = elliptic.P521()
		default:
			panic("curve " + id)
		}
		k, err := ecdsa.GenerateKey(c, rand.Reader)
		if err != nil {
			panic(err)
		}
		priv = k
	default:
		_, k, err := ed25519.GenerateKey(rand.Reader)
		if err != nil {
			panic(err)
		}
		priv = k
	}
	k := &Key{ID: id, Priv: priv}
	keyPool[id] = k
	return k
}

// CertSpec is the feature record a certificate is built from.
type CertSpec struct {
	CN                  string
	KeyID               string
	Serial              *big.Int
	BC                  bool // emit basic constraints
	IsCA                bool
	MaxPathLen          int
	MaxPathLenZero      bool
	KUPresent           bool
	KUCritical          bool
	KU                  x509.KeyUsage
	EKU                 []x509.ExtKeyUsage
	UnknownEKU          []asn1.ObjectIdentifier
	EKUCritical         bool
	NotBefore, NotAfter time.Time
	OCSP                []string
	CRLDP               []string
	Freshest            bool // add a freshest-CRL extension to the certificate
	SigAlg              x509.SignatureAlgorithm
	// deviations in how it is issued
	IssuerCN   string // if non-empty: name the issuer differently from the real parent's subject
	ForeignSig bool   // sign with a twin of the parent (same subject, different key)
	CorruptSig bool   // flip a bit in the signature
	SelfSign   bool   // ignore parent: self-signed
	NoSKI      bool
	ExtraExt   []pkix.Extension
	// the issuer field is the parent's subject in another DER encoding (the RDNs in reverse order): byte-wise a different
	// name, rendered as the same string by pkix.Name.String()
	IssuerReencoded bool
	// the subject is the empty sequence (RFC 5280 4.1.2.6: allowed with a critical subjectAltName); pkix.Name.String() is ""
	EmptySubject bool
	// the order of the extensions inside the certificate: "" (as crypto/x509 writes them), "reversed", "rotated" (the last
	// one first), "eku-first", "ku-first", "bc-first"
	ExtOrder string
	// key identifiers: "aki-differs" (an authority key identifier that is neither the issuer's nor the certificate's own subject
	// key identifier), "aki-absent", "ski-absent", "aki-equals-own-ski" — unverified hints, nothing in the specification reads them
	KeyIDs string
}

type Issued struct {
	Spec *CertSpec
	Cert *x509.Certificate
	Key  *Key
}

var (
	oidKeyUsage    = asn1.ObjectIdentifier{2, 5, 29, 15}
	oidExtKeyUsage = asn1.ObjectIdentifier{2, 5, 29, 37}
	oidFreshestCRL = asn1.ObjectIdentifier{2, 5, 29, 46}
	oidEKUBase     = asn1.ObjectIdentifier{1, 3, 6, 1, 5, 5, 7, 3}
)

var serialCounter int64 = 1000
var serialMu sync.Mutex

func nextSerial() *big.Int {
	serialMu.Lock()
	defer serialMu.Unlock()
	serialCounter++
	return big.NewInt(serialCounter)
}

func ekuOID(e x509.ExtKeyUsage) asn1.ObjectIdentifier {
	switch e {
	case x509.ExtKeyUsageAny:
		return asn1.ObjectIdentifier{2, 5, 29, 37, 0}
	case x509.ExtKeyUsageServerAuth:
		return append(append(asn1.ObjectIdentifier{}, oidEKUBase...), 1)
	case x509.ExtKeyUsageClientAuth:
		return append(append(asn1.ObjectIdentifier{}, oidEKUBase...), 2)
	case x509.ExtKeyUsageCodeSigning:
		return append(append(asn1.ObjectIdentifier{}, oidEKUBase...), 3)
	case x509.ExtKeyUsageEmailProtection:
		return append(append(asn1.ObjectIdentifier{}, oidEKUBase...), 4)
	case x509.ExtKeyUsageTimeStamping:
		return append(append(asn1.ObjectIdentifier{}, oidEKUBase...), 8)
	case x509.ExtKeyUsageOCSPSigning:
		return append(append(asn1.ObjectIdentifier{}, oidEKUBase...), 9)
	}
	panic("eku oid")
}

func reverseBits(b byte) byte {
	var r byte
	for i := 0; i < 8; i++ {
		r = r<<1 | (b>>uint(i))&1
	}
	return r
}

func marshalKU(ku x509.KeyUsage) []byte {
	var a [2]byte
	a[0] = reverseBits(byte(ku))
	a[1] = reverseBits(byte(ku >> 8))
	l := 1
	if a[1] != 0 {
		l = 2
	}
	bs := asn1.BitString{Bytes: a[:l], BitLength: 0}
	// bit length: position of highest set bit
	bl := 0
	for i := 0; i < 16; i++ {
		if bs.At(i) != 0 {
			bl = i + 1
		}
	}
	bs.BitLength = bl
	out, err := asn1.Marshal(bs)
	if err != nil {
		panic(err)
	}
	return out
}

// twinOf returns a key with the same type as k but different material (for foreign signatures).
func twinOf(k *Key) *Key {
	switch p := k.Priv.(type) {
	case *rsa.PrivateKey:
		bits := p.N.BitLen()
		if bits != 1024 && bits != 2048 && bits != 3072 && bits != 4096 {
			bits = 2048 // no second committed key of the odd sizes: any other RSA key is a twin for the purpose
		}
		id := fmt.Sprintf("rsa%d-1", bits)
		if k.ID == id {
			id = fmt.Sprintf("rsa%d-0", bits)
		}
		return getKey(id)
	case *ecdsa.PrivateKey:
		id := fmt.Sprintf("ec%d-99", p.Curve.Params().BitSize)
		if k.ID == id {
			id = fmt.Sprintf("ec%d-98", p.Curve.Params().BitSize)
		}
		return getKey(id)
	default:
		return getKey("ed-99")
	}
}

// issue creates the certificate described by spec, issued by parent (nil or SelfSign => self-signed).
func issue(spec *CertSpec, parent *Issued) (*Issued, error) {
	key := getKey(spec.KeyID)
	serial := spec.Serial
	if serial == nil {
		serial = nextSerial()
	}
	tmpl := &x509.Certificate{
		SerialNumber:          serial,
		Subject:               pkix.Name{CommonName: spec.CN, Organization: []string{"verif"}},
		NotBefore:             spec.NotBefore,
		NotAfter:              spec.NotAfter,
		BasicConstraintsValid: spec.BC,
		IsCA:                  spec.IsCA,
		MaxPathLen:            spec.MaxPathLen,
		MaxPathLenZero:        spec.MaxPathLenZero,
		OCSPServer:            spec.OCSP,
		CRLDistributionPoints: spec.CRLDP,
		SignatureAlgorithm:    spec.SigAlg,
	}
	if !spec.IsCA && spec.BC {
		tmpl.MaxPathLen = -1
	}
	if spec.EmptySubject {
		tmpl.Subject = pkix.Name{}
		tmpl.DNSNames = []string{"nameless.verif.example"}
	}
	if spec.KUPresent {
		tmpl.KeyUsage = spec.KU
		if !spec.KUCritical || spec.KU == 0 {
			tmpl.KeyUsage = 0
			tmpl.ExtraExtensions = append(tmpl.ExtraExtensions, pkix.Extension{Id: oidKeyUsage, Critical: spec.KUCritical, Value: marshalKU(spec.KU)})
		}
	}
	if len(spec.EKU) > 0 || len(spec.UnknownEKU) > 0 {
		if spec.EKUCritical {
			var oids []asn1.ObjectIdentifier
			for _, e := range spec.EKU {
				oids = append(oids, ekuOID(e))
			}
			oids = append(oids, spec.UnknownEKU...)
			v, err := asn1.Marshal(oids)
			if err != nil {
				return nil, err
			}
			tmpl.ExtraExtensions = append(tmpl.ExtraExtensions, pkix.Extension{Id: oidExtKeyUsage, Critical: true, Value: v})
		} else {
			tmpl.ExtKeyUsage = spec.EKU
			tmpl.UnknownExtKeyUsage = spec.UnknownEKU
		}
	}
	if spec.Freshest {
		// FreshestCRL ::= CRLDistributionPoints, one point with one URI
		v := mustFreshest([]string{"http://delta.example/cert-delta.crl"})
		tmpl.ExtraExtensions = append(tmpl.ExtraExtensions, pkix.Extension{Id: oidFreshestCRL, Value: v})
	}
	tmpl.ExtraExtensions = append(tmpl.ExtraExtensions, spec.ExtraExt...)
	if spec.KeyIDs != "" {
		own := sha1.Sum(mustPKIX(key.Priv.Public()))
		tmpl.SubjectKeyId = own[:]
		akiExt := func(id []byte) pkix.Extension {
			v, err := asn1.Marshal(struct {
				ID []byte `asn1:"optional,tag:0"`
			}{id})
			if err != nil {
				panic(err)
			}
			return pkix.Extension{Id: asn1.ObjectIdentifier{2, 5, 29, 35}, Value: v}
		}
		switch spec.KeyIDs {
		case "aki-differs":
			tmpl.ExtraExtensions = append(tmpl.ExtraExtensions, akiExt([]byte("another key identifier")))
		case "aki-equals-own-ski":
			tmpl.ExtraExtensions = append(tmpl.ExtraExtensions, akiExt(own[:]))
		case "aki-absent":
			// handled after creation: crypto/x509 always copies the parent's identifier
		case "ski-absent":
			tmpl.SubjectKeyId = nil
		}
	}

	var parentCert *x509.Certificate
	var signer crypto.Signer
	if parent == nil || spec.SelfSign {
		parentCert = tmpl
		signer = key.Priv
	} else {
		parentCert = parent.Cert
		signer = parent.Key.Priv
		if spec.ForeignSig {
			tw := twinOf(parent.Key)
			signer = tw.Priv
			parentCert = &x509.Certificate{Subject: parent.Cert.Subject, RawSubject: parent.Cert.RawSubject, PublicKey: tw.Priv.Public()}
		}
		if spec.IssuerCN != "" {
			parentCert = &x509.Certificate{Subject: pkix.Name{CommonName: spec.IssuerCN, Organization: []string{"verif"}}, PublicKey: signer.Public()}
		}
	}
	if spec.IssuerCN != "" && (parent == nil || spec.SelfSign) {
		parentCert = &x509.Certificate{Subject: pkix.Name{CommonName: spec.IssuerCN, Organization: []string{"verif"}}, PublicKey: signer.Public()}
	}
	if spec.IssuerReencoded {
		raw := parentCert.RawSubject
		if len(raw) == 0 {
			// self-signed: the subject as CreateCertificate will encode it
			b, err := asn1.Marshal(tmpl.Subject.ToRDNSequence())
			if err != nil {
				return nil, err
			}
			raw = b
		}
		var rdns pkix.RDNSequence
		if _, err := asn1.Unmarshal(raw, &rdns); err != nil {
			return nil, err
		}
		for i, j := 0, len(rdns)-1; i < j; i, j = i+1, j-1 {
			rdns[i], rdns[j] = rdns[j], rdns[i]
		}
		re, err := asn1.Marshal(rdns)
		if err != nil {
			return nil, err
		}
		parentCert = &x509.Certificate{RawSubject: re, PublicKey: signer.Public(), Subject: parentCert.Subject}
	}
	der, err := x509.CreateCertificate(rand.Reader, tmpl, parentCert, key.Priv.Public(), signer)
	if err != nil {
		return nil, err
	}
	if spec.ExtOrder != "" {
		if re, rerr := reorderExtensions(der, signer, spec.ExtOrder); rerr == nil {
			der = re
		} else {
			return nil, rerr
		}
	}
	if spec.CorruptSig {
		der = corruptCertSignature(der)
	}
	c, err := x509.ParseCertificate(der)
	if err != nil {
		return nil, err
	}
	return &Issued{Spec: spec, Cert: c, Key: key}, nil
}

func mustPKIX(pub any) []byte {
	b, err := x509.MarshalPKIXPublicKey(pub)
	if err != nil {
		panic(err)
	}
	return b
}

// reorderExtensions rewrites the certificate with its extensions in another order and signs it again with the same
// algorithm (the to-be-signed part is re-encoded field by field from the raw values; only the extension list changes).
func reorderExtensions(der []byte, signer crypto.Signer, order string) ([]byte, error) {
	var outer struct {
		TBS asn1.RawValue
		Alg pkix.AlgorithmIdentifier
		Sig asn1.BitString
	}
	if _, err := asn1.Unmarshal(der, &outer); err != nil {
		return nil, err
	}
	var fields []asn1.RawValue
	rest := outer.TBS.Bytes
	for len(rest) > 0 {
		var f asn1.RawValue
		var err error
		rest, err = asn1.Unmarshal(rest, &f)
		if err != nil {
			return nil, err
		}
		fields = append(fields, f)
	}
	xi := -1
	for i, f := range fields {
		if f.Class == asn1.ClassContextSpecific && f.Tag == 3 {
			xi = i
		}
	}
	if xi < 0 {
		return der, nil
	}
	var exts []asn1.RawValue
	var seq asn1.RawValue
	if _, err := asn1.Unmarshal(fields[xi].Bytes, &seq); err != nil {
		return nil, err
	}
	rest = seq.Bytes
	for len(rest) > 0 {
		var e asn1.RawValue
		var err error
		rest, err = asn1.Unmarshal(rest, &e)
		if err != nil {
			return nil, err
		}
		exts = append(exts, e)
	}
	oidOf := func(e asn1.RawValue) asn1.ObjectIdentifier {
		var id asn1.ObjectIdentifier
		asn1.Unmarshal(e.Bytes, &id)
		return id
	}
	first := func(id asn1.ObjectIdentifier) {
		for i, e := range exts {
			if oidOf(e).Equal(id) {
				exts = append(append([]asn1.RawValue{e}, exts[:i]...), exts[i+1:]...)
				return
			}
		}
	}
	switch order {
	case "reversed":
		for i, j := 0, len(exts)-1; i < j; i, j = i+1, j-1 {
			exts[i], exts[j] = exts[j], exts[i]
		}
	case "rotated":
		if len(exts) > 1 {
			exts = append([]asn1.RawValue{exts[len(exts)-1]}, exts[:len(exts)-1]...)
		}
	case "eku-first":
		first(oidExtKeyUsage)
	case "ku-first":
		first(oidKeyUsage)
	case "bc-first":
		first(asn1.ObjectIdentifier{2, 5, 29, 19})
	}
	var body []byte
	for _, e := range exts {
		body = append(body, e.FullBytes...)
	}
	seqDER, err := asn1.Marshal(asn1.RawValue{Class: asn1.ClassUniversal, Tag: asn1.TagSequence, IsCompound: true, Bytes: body})
	if err != nil {
		return nil, err
	}
	x3, err := asn1.Marshal(asn1.RawValue{Class: asn1.ClassContextSpecific, Tag: 3, IsCompound: true, Bytes: seqDER})
	if err != nil {
		return nil, err
	}
	var tbsBody []byte
	for i, f := range fields {
		if i == xi {
			tbsBody = append(tbsBody, x3...)
		} else {
			tbsBody = append(tbsBody, f.FullBytes...)
		}
	}
	tbs, err := asn1.Marshal(asn1.RawValue{Class: asn1.ClassUniversal, Tag: asn1.TagSequence, IsCompound: true, Bytes: tbsBody})
	if err != nil {
		return nil, err
	}
	orig, err := x509.ParseCertificate(der)
	if err != nil {
		return nil, err
	}
	var h crypto.Hash
	var opts crypto.SignerOpts
	switch orig.SignatureAlgorithm {
	case x509.ECDSAWithSHA256, x509.SHA256WithRSA:
		h = crypto.SHA256
	case x509.ECDSAWithSHA384, x509.SHA384WithRSA:
		h = crypto.SHA384
	case x509.ECDSAWithSHA512, x509.SHA512WithRSA:
		h = crypto.SHA512
	case x509.SHA256WithRSAPSS:
		h, opts = crypto.SHA256, &rsa.PSSOptions{SaltLength: rsa.PSSSaltLengthEqualsHash, Hash: crypto.SHA256}
	case x509.SHA384WithRSAPSS:
		h, opts = crypto.SHA384, &rsa.PSSOptions{SaltLength: rsa.PSSSaltLengthEqualsHash, Hash: crypto.SHA384}
	case x509.SHA512WithRSAPSS:
		h, opts = crypto.SHA512, &rsa.PSSOptions{SaltLength: rsa.PSSSaltLengthEqualsHash, Hash: crypto.SHA512}
	default:
		return der, nil // Ed25519 and the like: left as written
	}
	if opts == nil {
		opts = h
	}
	hh := h.New()
	hh.Write(tbs)
	sig, err := signer.Sign(rand.Reader, hh.Sum(nil), opts)
	if err != nil {
		return nil, err
	}
	return asn1.Marshal(struct {
		TBS asn1.RawValue
		Alg pkix.AlgorithmIdentifier
		Sig asn1.BitString
	}{asn1.RawValue{FullBytes: tbs}, outer.Alg, asn1.BitString{Bytes: sig, BitLength: 8 * len(sig)}})
}

// corruptCertSignature flips one bit in the last byte of the DER (inside the signature BIT STRING).
func corruptCertSignature(der []byte) []byte {
	out := append([]byte{}, der...)
	out[len(out)-1] ^= 0x01
	return out
}

type distributionPointName struct {
	FullName []asn1.RawValue `asn1:"optional,tag:0"`
}
type distributionPoint struct {
	DistributionPoint distributionPointName `asn1:"optional,tag:0"`
}

func mustFreshest(urls []string) []byte {
	var dps []distributionPoint
	for _, u := range urls {
		dps = append(dps, distributionPoint{DistributionPoint: distributionPointName{FullName: []asn1.RawValue{{Tag: 6, Class: 2, Bytes: []byte(u)}}}})
	}
	v, err := asn1.Marshal(dps)
	if err != nil {
		panic(err)
	}
	return v
}

// ---------------------------------------------------------------------------------------------
// abstraction of parsed certificates (independent of the code under test)

type interner struct{ m map[string]int }

func (in *interner) id(b []byte) int {
	if in.m == nil {
		in.m = map[string]int{}
	}
	if v, ok := in.m[string(b)]; ok {
		return v
	}
	v := len(in.m)
	in.m[string(b)] = v
	return v
}

func tsec(t time.Time) []int64 { return []int64{t.Unix(), int64(t.Nanosecond())} }

func absKey(pub any) map[string]any {
	switch k := pub.(type) {
	case *rsa.PublicKey:
		return map[string]any{"t": "rsa", "bits": k.Size() * 8}
	case *ecdsa.PublicKey:
		return map[string]any{"t": "ec", "bits": k.Curve.Params().BitSize}
	}
	return map[string]any{"t": "other"}
}

func extState(c *x509.Certificate, oid asn1.ObjectIdentifier) any {
	for _, e := range c.Extensions {
		if e.Id.Equal(oid) {
			return e.Critical
		}
	}
	return nil
}

// absCert maps a parsed certificate to the model's record. id = position in the pool.
func absCert(c *x509.Certificate, id int, names *interner) map[string]any {
	eku := []int{}
	for _, e := range c.ExtKeyUsage {
		eku = append(eku, int(e))
	}
	return map[string]any{
		"id": id, "subject": names.id(c.RawSubject), "issuer": names.id(c.RawIssuer),
		"v3": c.Version == 3, "bcValid": c.BasicConstraintsValid, "isCA": c.IsCA,
		"maxPathLen": c.MaxPathLen, "maxPathLenZero": c.MaxPathLenZero,
		"kuExt": extState(c, oidKeyUsage), "ku": int(c.KeyUsage),
		"ekuExt": extState(c, oidExtKeyUsage), "eku": eku, "unknownEku": len(c.UnknownExtKeyUsage),
		"key":       absKey(c.PublicKey),
		"notBefore": tsec(c.NotBefore), "notAfter": tsec(c.NotAfter),
	}
}

// sigStrict: the last two steps of CheckSignatureFrom — public key algorithm known and
// checkSignature(child..., parent.PublicKey, allowSHA1=false) — obtained by offering a parent that
// satisfies every constraint check trivially (version 0, no basic constraints, no key usage).
func sigStrict(child, parent *x509.Certificate) bool {
	fake := &x509.Certificate{PublicKey: parent.PublicKey, PublicKeyAlgorithm: parent.PublicKeyAlgorithm}
	return child.CheckSignatureFrom(fake) == nil
}

func sigSelfLoose(c *x509.Certificate) bool {
	return c.CheckSignature(c.SignatureAlgorithm, c.RawTBSCertificate, c.Signature) == nil
}

// absChain builds the abstract input for a chain: certificate records, the strict signature
// relation over all pairs, and the loose self-signature set.
func absChain(chain []*x509.Certificate) map[string]any {
	return absChainWith(chain, &interner{})
}

// absChainWith: as absChain, with certificate ids taken from a shared interner of DER bytes
func absChainWith(chain []*x509.Certificate, ders *interner) map[string]any {
	names := &interner{}
	certs := []any{}
	sig := [][]int{}
	self := []int{}
	// identical DER => identical id
	ids := make([]int, len(chain))
	for i, c := range chain {
		ids[i] = ders.id(c.Raw)
	}
	for i, c := range chain {
		certs = append(certs, absCert(c, ids[i], names))
	}
	seen := map[[2]int]bool{}
	selfSeen := map[int]bool{}
	for i, c := range chain {
		// the model only ever asks about (i,i) and (i,i+1)
		for _, j := range []int{i, i + 1} {
			if j >= len(chain) {
				continue
			}
			k := [2]int{ids[i], ids[j]}
			if seen[k] {
				continue
			}
			seen[k] = true
			if sigStrict(c, chain[j]) {
				sig = append(sig, []int{ids[i], ids[j]})
			}
		}
		if !selfSeen[ids[i]] {
			selfSeen[ids[i]] = true
			if sigSelfLoose(c) {
				self = append(self, ids[i])
			}
		}
	}
	return map[string]any{"certs": certs, "sig": sig, "sigSelf": self}
}
