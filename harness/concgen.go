package main

// C17: the fork/join of revocation checking on the real code. Scenarios run in child processes of
// this binary (built with the race detector): a barrier transport holds the concurrent exchanges
// of one call and lets them complete in a prescribed order (every permutation), panics and
// cancellations are injected at each exchange, and 1..32 callers share one validator, HTTP client,
// CRL fetcher and cache. A crash of a child (a panic on a background goroutine) or a race report is
// a result, not an accident: the parent isolates the scenario and reports it.

import (
	"bufio"
	"context"
	"crypto/x509"
	"encoding/json"
	"errors"
	"fmt"
	"io"
	"net/http"
	"os"
	"os/exec"
	"path/filepath"
	"runtime"
	"strings"
	"sync"
	"sync/atomic"
	"time"

	"github.com/notaryproject/notation-core-go/revocation"
	corecrl "github.com/notaryproject/notation-core-go/revocation/crl"
	revocsp "github.com/notaryproject/notation-core-go/revocation/ocsp"
	"github.com/notaryproject/notation-core-go/revocation/purpose"
	"github.com/notaryproject/notation-core-go/revocation/result"
)

type concScenario struct {
	ID          string   `json:"id"`
	Kind        string   `json:"kind"` // ref | perm | callers | panic | cancel
	Mode        string   `json:"mode"` // full (ValidateContext) | ocsp (ocsp.CheckStatus)
	Beh         []string `json:"beh"`  // per non-root certificate, leaf first
	Order       []int    `json:"order,omitempty"`
	Callers     int      `json:"callers,omitempty"`
	PanicAt     []int    `json:"panic_at,omitempty"`     // levels whose exchange panics
	CancelAfter int      `json:"cancel_after,omitempty"` // cancel the context after this many exchanges were released (-1: when all have arrived)
	RealFetcher bool     `json:"real_fetcher,omitempty"`
	Rounds      int      `json:"rounds,omitempty"`
	// kind "cache-set": the real fetcher with a cache whose Set announces itself and then waits behind a gate
	Discard    bool `json:"discard_cache_error,omitempty"`
	CachePanic bool `json:"cache_set_panics,omitempty"` // Set panics once the gate opens
}

type concResult struct {
	ID                 string   `json:"id"`
	Outcome            string   `json:"outcome"` // returned | panic | error
	Results            []string `json:"results,omitempty"`
	Panic              string   `json:"panic,omitempty"`
	Error              string   `json:"error,omitempty"`
	Inflight           int      `json:"inflight_at_return"`
	Leaked             int      `json:"goroutines_leaked"`
	Arrival            []int    `json:"arrival,omitempty"`
	Ordered            bool     `json:"ordered"`
	CallersDisagree    string   `json:"callers_disagree,omitempty"`
	AllArrivedTogether bool     `json:"all_arrived_together"`
	ReturnedEarly      bool     `json:"returned_while_cache_set_was_running,omitempty"`
	SetCalls           int      `json:"cache_set_calls,omitempty"`
}

// gateCache: a cache (always a miss) whose Set announces that it has started and cannot finish until the gate is opened
type gateCache struct {
	started chan struct{}
	gate    chan struct{}
	panics  bool
	calls   int32
}

func (c *gateCache) Get(ctx context.Context, u string) (*corecrl.Bundle, error) {
	return nil, corecrl.ErrCacheMiss
}

func (c *gateCache) Set(ctx context.Context, u string, b *corecrl.Bundle) error {
	atomic.AddInt32(&c.calls, 1)
	c.started <- struct{}{}
	<-c.gate
	if c.panics {
		panic("injected panic in the cache store")
	}
	return errors.New("the store failed")
}

var concBehaviours = []string{"good", "revoked", "unknown-crl-clean", "unknown-crl-listed", "ocsp-500-crl-clean", "crl-only-clean", "crl-only-listed", "none"}

func concLevel(level int, beh string) levelSpec {
	l := levelSpec{}
	o, c := []string{ocspURL(level, 0)}, []string{crlURL(level, 0)}
	switch beh {
	case "good":
		l.ocspURLs, l.ocspBeh, l.crlURLs, l.crlBeh = o, []string{"good"}, c, []string{"clean"}
	case "revoked":
		l.ocspURLs, l.ocspBeh, l.crlURLs, l.crlBeh = o, []string{"revoked"}, c, []string{"clean"}
	case "unknown-crl-clean":
		l.ocspURLs, l.ocspBeh, l.crlURLs, l.crlBeh = o, []string{"unknown"}, c, []string{"clean"}
	case "unknown-crl-listed":
		l.ocspURLs, l.ocspBeh, l.crlURLs, l.crlBeh = o, []string{"unknown"}, c, []string{"lists-cert"}
	case "ocsp-500-crl-clean":
		l.ocspURLs, l.ocspBeh, l.crlURLs, l.crlBeh = o, []string{"http-500"}, c, []string{"clean"}
	case "crl-only-clean":
		l.crlURLs, l.crlBeh = c, []string{"clean"}
	case "crl-only-listed":
		l.crlURLs, l.crlBeh = c, []string{"lists-cert"}
	case "crl-only-delta-ok":
		l.crlURLs, l.crlBeh = c, []string{"delta-ok"}
	case "crl-only-many-entries-delta-entries":
		l.crlURLs, l.crlBeh = c, []string{"many-entries-delta-entries"}
	case "crl-only-many-entries-delta-lists":
		l.crlURLs, l.crlBeh = c, []string{"many-entries-delta-lists-cert"}
	case "crl-only-delta-lists":
		l.crlURLs, l.crlBeh = c, []string{"delta-lists-cert"}
	case "crl-only-base-lists-delta-removes":
		l.crlURLs, l.crlBeh = c, []string{"base-lists-delta-removes"}
	case "ocsp-only-good":
		l.ocspURLs, l.ocspBeh = o, []string{"good"}
	case "ocsp-only-unknown":
		l.ocspURLs, l.ocspBeh = o, []string{"unknown"}
	case "none":
	}
	return l
}

// gate: the first exchange of each level is held until released
type concGate struct {
	mu        sync.Mutex
	held      map[int]chan struct{} // level -> release channel
	arrived   []int
	arriveCh  chan int
	inflight  int32
	levelOf   map[string]int // URL -> level
	firstSeen map[int]bool
	panicAt   map[int]bool
	gated     bool
}

func (g *concGate) enter(ctx context.Context, key string) error {
	atomic.AddInt32(&g.inflight, 1)
	lv, ok := g.levelOf[key]
	if !ok {
		return nil
	}
	g.mu.Lock()
	first := !g.firstSeen[lv]
	g.firstSeen[lv] = true
	var ch chan struct{}
	if first && g.gated {
		ch = g.held[lv]
		g.arrived = append(g.arrived, lv)
	}
	g.mu.Unlock()
	if ch != nil {
		g.arriveCh <- lv
		select {
		case <-ch:
		case <-ctx.Done():
			return ctx.Err()
		}
	}
	if first && g.panicAt[lv] {
		panic(fmt.Sprintf("injected panic in the exchange of certificate %d", lv))
	}
	return nil
}

func (g *concGate) leave() { atomic.AddInt32(&g.inflight, -1) }

type gatedTransport struct {
	g     *concGate
	inner *scriptedTransport
}

func (t *gatedTransport) RoundTrip(req *http.Request) (*http.Response, error) {
	defer t.g.leave()
	t.inner.mu.Lock()
	key, _ := t.inner.find(req.URL)
	t.inner.mu.Unlock()
	if err := t.g.enter(req.Context(), key); err != nil {
		return nil, err
	}
	return t.inner.RoundTrip(req)
}

type gatedFetcher struct {
	g     *concGate
	inner corecrl.Fetcher
}

func (f *gatedFetcher) Fetch(ctx context.Context, u string) (*corecrl.Bundle, error) {
	defer f.g.leave()
	if err := f.g.enter(ctx, "crl:"+u); err != nil {
		return nil, err
	}
	return f.inner.Fetch(ctx, u)
}

// httpCRLTransport serves the scripted CRLs over HTTP (for the real HTTPFetcher)
type concWorld struct {
	chain   []*x509.Certificate
	tr      *scriptedTransport
	ft      *scriptedFetcher
	crlHTTP map[string][]byte
	gate    *concGate
	st      time.Time
}

func buildConcWorld(s concScenario) *concWorld {
	cc := chainCase{label: "conc"}
	for i, b := range s.Beh {
		cc.levels = append(cc.levels, concLevel(i, b))
	}
	iss := buildRevoChain(&cc)
	now := time.Now()
	st := now.Add(-30 * time.Minute).Truncate(time.Second)
	pki := &revoPKI{other: getOtherCA(), delegates: map[string]*Issued{}, leaves: map[string]*Issued{}}
	w := &concWorld{tr: &scriptedTransport{m: map[string]*httpBehaviour{}}, ft: &scriptedFetcher{m: map[string]*fetchBehaviour{}}, st: st, crlHTTP: map[string][]byte{}}
	g := &concGate{held: map[int]chan struct{}{}, levelOf: map[string]int{}, firstSeen: map[int]bool{}, panicAt: map[int]bool{}, arriveCh: make(chan int, 16)}
	for i, l := range cc.levels {
		cert, issuer := iss[i], iss[i+1]
		octx := &ocspCtx{pki: pki, issuer: issuer, leaf: cert, now: now, st: st}
		kctx := &crlCtx{pki: pki, issuer: issuer, leaf: cert, now: now, st: st}
		for j, u := range l.ocspURLs {
			w.tr.m[u] = octx.behaviour(l.ocspBeh[j])
			g.levelOf[u] = i
		}
		for j, u := range l.crlURLs {
			b := kctx.behaviour(l.crlBeh[j])
			w.ft.m[u] = b
			if len(l.ocspURLs) == 0 {
				// CRL is the first exchange of this level
				g.levelOf["crl:"+u] = i
				g.levelOf[u] = i
			}
			if b.bundle != nil && b.bundle.BaseCRL != nil {
				w.crlHTTP[u] = b.bundle.BaseCRL.Raw
				w.tr.m[u] = &httpBehaviour{body: b.bundle.BaseCRL.Raw}
			}
		}
		if len(l.ocspURLs) > 0 || len(l.crlURLs) > 0 {
			g.held[i] = make(chan struct{})
		}
	}
	for _, p := range s.PanicAt {
		g.panicAt[p] = true
	}
	w.gate = g
	w.chain = make([]*x509.Certificate, len(iss))
	for i := range iss {
		w.chain[i] = iss[i].Cert
	}
	return w
}

type lockedCache struct {
	mu sync.Mutex
	m  map[string]*corecrl.Bundle
}

func (c *lockedCache) Get(ctx context.Context, u string) (*corecrl.Bundle, error) {
	c.mu.Lock()
	defer c.mu.Unlock()
	if b, ok := c.m[u]; ok {
		return b, nil
	}
	return nil, corecrl.ErrCacheMiss
}

func (c *lockedCache) Set(ctx context.Context, u string, b *corecrl.Bundle) error {
	c.mu.Lock()
	defer c.mu.Unlock()
	c.m[u] = b
	return nil
}

func canonResults(rs []*result.CertRevocationResult) []string {
	out := make([]string, len(rs))
	for i, r := range rs {
		if r == nil {
			out[i] = "nil"
			continue
		}
		b, _ := json.Marshal(canonCertResult(r))
		out[i] = string(b)
	}
	return out
}

func waitGoroutines(target int, d time.Duration) int {
	deadline := time.Now().Add(d)
	for {
		n := runtime.NumGoroutine()
		if n <= target || time.Now().After(deadline) {
			return n
		}
		time.Sleep(200 * time.Microsecond)
	}
}

// runConcScenario: in the child process
func runConcScenario(s concScenario) concResult {
	res := concResult{ID: s.ID, Ordered: true}
	w := buildConcWorld(s)
	g := w.gate
	g.gated = s.Kind == "perm" || s.Kind == "panic" || s.Kind == "cancel"
	if s.Kind == "panic" && len(s.Order) == 0 {
		g.gated = false
	}
	client := &http.Client{Transport: &gatedTransport{g: g, inner: w.tr}}
	var fetcher corecrl.Fetcher = &gatedFetcher{g: g, inner: w.ft}
	if s.RealFetcher {
		hf, err := corecrl.NewHTTPFetcher(client)
		if err != nil {
			panic(err)
		}
		hf.Cache = &lockedCache{m: map[string]*corecrl.Bundle{}}
		fetcher = hf
	}
	ctx, cancel := context.WithCancel(context.Background())
	defer cancel()
	call := func() (rs []*result.CertRevocationResult, err error, pv any) {
		defer func() { pv = recover() }()
		if s.Mode == "ocsp" {
			rs, err = revocsp.CheckStatus(revocsp.Options{CertChain: w.chain, SigningTime: w.st, HTTPClient: client, CertChainPurpose: purpose.CodeSigning})
			return
		}
		v, e := revocation.NewWithOptions(revocation.Options{OCSPHTTPClient: client, CRLFetcher: fetcher, CertChainPurpose: purpose.CodeSigning})
		if e != nil {
			panic(e)
		}
		rs, err = v.ValidateContext(ctx, revocation.ValidateContextOptions{CertChain: w.chain, AuthenticSigningTime: w.st})
		return
	}
	if s.Kind == "cache-set" {
		// everything a check starts is over when it returns — also what it starts inside the fetcher (the write-back of a
		// downloaded list to the caller's cache), with the error of that write discarded or not
		hf, err := corecrl.NewHTTPFetcher(&http.Client{Transport: w.tr})
		if err != nil {
			panic(err)
		}
		gc := &gateCache{started: make(chan struct{}, 64), gate: make(chan struct{}), panics: s.CachePanic}
		hf.Cache, hf.DiscardCacheError = gc, s.Discard
		v, e := revocation.NewWithOptions(revocation.Options{OCSPHTTPClient: &http.Client{Transport: w.tr}, CRLFetcher: hf, CertChainPurpose: purpose.CodeSigning})
		if e != nil {
			panic(e)
		}
		base := runtime.NumGoroutine()
		type ret struct {
			rs  []*result.CertRevocationResult
			err error
			pv  any
		}
		done := make(chan ret, 1)
		go func() {
			var x ret
			defer func() {
				x.pv = recover()
				done <- x
			}()
			x.rs, x.err = v.ValidateContext(context.Background(), revocation.ValidateContextOptions{CertChain: w.chain, AuthenticSigningTime: w.st})
		}()
		select {
		case <-gc.started:
		case <-time.After(10 * time.Second):
			res.Outcome, res.Error = "error", "the cache store was never called"
			return res
		}
		var x ret
		got := false
		select {
		case x = <-done:
			// the call is over while the store it started is still waiting behind the gate
			res.ReturnedEarly, got = true, true
		case <-time.After(300 * time.Millisecond):
		}
		close(gc.gate)
		if !got {
			select {
			case x = <-done:
			case <-time.After(20 * time.Second):
				res.Outcome, res.Error = "error", "the call did not return within 20 s of the store finishing"
				return res
			}
		}
		// let a stray store run into its panic (if it is going to) before the verdict is written
		time.Sleep(50 * time.Millisecond)
		res.SetCalls = int(atomic.LoadInt32(&gc.calls))
		switch {
		case x.pv != nil:
			res.Outcome, res.Panic = "panic", fmt.Sprint(x.pv)
		case x.err != nil:
			res.Outcome, res.Error = "error", x.err.Error()
		default:
			res.Outcome, res.Results = "returned", canonResults(x.rs)
		}
		if n := waitGoroutines(base, time.Second); n > base {
			res.Leaked = n - base
		}
		return res
	}
	if s.Kind == "callers-mixed" {
		// two overlapping calls share the validator's fetcher and need the same CRLs; the first one is cancelled (or its exchanges
		// panic) while its downloads are in flight. The second one, whose own context is live, must get the reference results.
		hf, err := corecrl.NewHTTPFetcher(client)
		if err != nil {
			panic(err)
		}
		hf.Cache = &lockedCache{m: map[string]*corecrl.Bundle{}}
		v, e := revocation.NewWithOptions(revocation.Options{OCSPHTTPClient: client, CRLFetcher: hf, CertChainPurpose: purpose.CodeSigning})
		if e != nil {
			panic(e)
		}
		// reference: an undisturbed call through a separate fetcher without cache
		hf0, _ := corecrl.NewHTTPFetcher(&http.Client{Transport: w.tr})
		v0, _ := revocation.NewWithOptions(revocation.Options{OCSPHTTPClient: &http.Client{Transport: w.tr}, CRLFetcher: hf0, CertChainPurpose: purpose.CodeSigning})
		ref, rerr := v0.ValidateContext(context.Background(), revocation.ValidateContextOptions{CertChain: w.chain, AuthenticSigningTime: w.st})
		if rerr != nil {
			res.Outcome, res.Error = "error", rerr.Error()
			return res
		}
		refC := canonResults(ref)
		base := runtime.NumGoroutine()
		g.gated = true
		ctxA, cancelA := context.WithCancel(context.Background())
		defer cancelA()
		aDone := make(chan struct{})
		go func() {
			defer close(aDone)
			defer func() { recover() }()
			v.ValidateContext(ctxA, revocation.ValidateContextOptions{CertChain: w.chain, AuthenticSigningTime: w.st})
		}()
		g.mu.Lock()
		need := len(g.held)
		g.mu.Unlock()
		arrived := 0
		timeout := time.After(10 * time.Second)
	arriveA:
		for arrived < need {
			select {
			case <-g.arriveCh:
				arrived++
			case <-timeout:
				break arriveA
			}
		}
		res.AllArrivedTogether = arrived == need
		type bret struct {
			rs  []*result.CertRevocationResult
			err error
			pv  any
		}
		bDone := make(chan bret, 1)
		go func() {
			var x bret
			defer func() {
				x.pv = recover()
				bDone <- x
			}()
			x.rs, x.err = v.ValidateContext(context.Background(), revocation.ValidateContextOptions{CertChain: w.chain, AuthenticSigningTime: w.st})
		}()
		// give the second call time to reach whatever it is going to wait on
		time.Sleep(30 * time.Millisecond)
		if s.CancelAfter < 0 {
			cancelA()
		}
		g.mu.Lock()
		for lv, ch := range g.held {
			close(ch)
			delete(g.held, lv)
		}
		g.mu.Unlock()
		select {
		case x := <-bDone:
			switch {
			case x.pv != nil:
				res.CallersDisagree = fmt.Sprintf("the undisturbed caller panicked: %v", x.pv)
			case x.err != nil:
				res.CallersDisagree = "the undisturbed caller got an error: " + x.err.Error()
			default:
				got := canonResults(x.rs)
				for i := range refC {
					if i >= len(got) || got[i] != refC[i] {
						res.CallersDisagree = fmt.Sprintf("the undisturbed caller's result for certificate %d is %v, reference %s", i, got, refC[i])
						break
					}
				}
			}
		case <-time.After(20 * time.Second):
			res.Outcome, res.Error = "error", "the undisturbed caller did not return within 20 s"
			return res
		}
		select {
		case <-aDone:
		case <-time.After(20 * time.Second):
			res.Outcome, res.Error = "error", "the disturbed caller did not return within 20 s"
			return res
		}
		res.Outcome, res.Results = "returned", refC
		res.Inflight = int(atomic.LoadInt32(&g.inflight))
		if n := waitGoroutines(base, time.Second); n > base {
			res.Leaked = n - base
		}
		return res
	}
	if s.Kind == "callers" {
		// one shared validator, client, fetcher and cache; every caller must get the reference result
		v, e := revocation.NewWithOptions(revocation.Options{OCSPHTTPClient: client, CRLFetcher: fetcher, CertChainPurpose: purpose.CodeSigning})
		if e != nil {
			panic(e)
		}
		ref, rerr := v.ValidateContext(context.Background(), revocation.ValidateContextOptions{CertChain: w.chain, AuthenticSigningTime: w.st})
		if rerr != nil {
			res.Outcome, res.Error = "error", rerr.Error()
			return res
		}
		refC := canonResults(ref)
		base := runtime.NumGoroutine()
		rounds := s.Rounds
		if rounds == 0 {
			rounds = 1
		}
		var wg sync.WaitGroup
		var mu sync.Mutex
		start := make(chan struct{})
		for c := 0; c < s.Callers; c++ {
			wg.Add(1)
			go func(c int) {
				defer wg.Done()
				<-start
				for k := 0; k < rounds; k++ {
					var rs []*result.CertRevocationResult
					var err error
					if s.Mode == "ocsp" {
						rs, err = revocsp.CheckStatus(revocsp.Options{CertChain: w.chain, SigningTime: w.st, HTTPClient: client, CertChainPurpose: purpose.CodeSigning})
					} else {
						rs, err = v.ValidateContext(context.Background(), revocation.ValidateContextOptions{CertChain: w.chain, AuthenticSigningTime: w.st})
					}
					got := canonResults(rs)
					if s.Mode == "ocsp" {
						continue // different result shape than the reference (OCSP only); only races and leaks are observed
					}
					bad := err != nil || len(got) != len(refC)
					for i := range refC {
						if !bad && got[i] != refC[i] {
							bad = true
						}
					}
					if bad {
						mu.Lock()
						if res.CallersDisagree == "" {
							res.CallersDisagree = fmt.Sprintf("caller %d round %d: %v %v", c, k, err, got)
						}
						mu.Unlock()
					}
				}
			}(c)
		}
		close(start)
		wg.Wait()
		res.Outcome = "returned"
		res.Results = refC
		res.Inflight = int(atomic.LoadInt32(&g.inflight))
		if n := waitGoroutines(base, time.Second); n > base {
			res.Leaked = n - base
		}
		return res
	}
	base := runtime.NumGoroutine()
	type ret struct {
		rs       []*result.CertRevocationResult
		err      error
		pv       any
		inflight int
	}
	done := make(chan ret, 1)
	go func() {
		rs, err, pv := call()
		done <- ret{rs, err, pv, int(atomic.LoadInt32(&g.inflight))}
	}()
	if g.gated {
		g.mu.Lock()
		need := len(g.held)
		g.mu.Unlock()
		// wait until every first exchange has arrived: they are all in flight at the same time
		arrived := 0
		timeout := time.After(10 * time.Second)
	arrive:
		for arrived < need {
			select {
			case <-g.arriveCh:
				arrived++
			case <-timeout:
				break arrive
			}
		}
		res.AllArrivedTogether = arrived == need
		g.mu.Lock()
		res.Arrival = append([]int{}, g.arrived...)
		g.mu.Unlock()
		if s.Kind == "cancel" && s.CancelAfter < 0 {
			cancel()
		}
		released := 0
		order := s.Order
		if len(order) == 0 {
			for lv := range g.held {
				order = append(order, lv)
			}
		}
		for _, lv := range order {
			g.mu.Lock()
			ch, ok := g.held[lv]
			g.mu.Unlock()
			if !ok {
				continue
			}
			if s.Kind == "cancel" && released == s.CancelAfter {
				cancel()
			}
			before := runtime.NumGoroutine()
			close(ch)
			released++
			// completion of this exchange: its goroutine is gone
			if n := waitGoroutines(before-1, 300*time.Millisecond); n > before-1 {
				res.Ordered = false
			}
			g.mu.Lock()
			delete(g.held, lv)
			g.mu.Unlock()
		}
		// a gate the order did not name must not hold the call for ever (that would be the harness's hang, not the code's)
		g.mu.Lock()
		for lv, ch := range g.held {
			close(ch)
			delete(g.held, lv)
		}
		g.mu.Unlock()
	}
	var r ret
	select {
	case r = <-done:
	case <-time.After(20 * time.Second):
		res.Outcome, res.Error = "error", "call did not return within 20 s"
		return res
	}
	res.Inflight = r.inflight
	switch {
	case r.pv != nil:
		res.Outcome, res.Panic = "panic", fmt.Sprint(r.pv)
	case r.err != nil:
		res.Outcome, res.Error = "error", r.err.Error()
	default:
		res.Outcome, res.Results = "returned", canonResults(r.rs)
	}
	if n := waitGoroutines(base, time.Second); n > base {
		res.Leaked = n - base
	}
	return res
}

// child process: scenarios on stdin, results on stdout
func concChildMain() {
	sc := bufio.NewScanner(os.Stdin)
	sc.Buffer(make([]byte, 1<<20), 1<<24)
	out := bufio.NewWriter(os.Stdout)
	for sc.Scan() {
		var s concScenario
		if err := json.Unmarshal(sc.Bytes(), &s); err != nil {
			fmt.Fprintln(os.Stderr, "bad scenario:", err)
			os.Exit(2)
		}
		r := runConcScenario(s)
		b, _ := json.Marshal(r)
		out.Write(b)
		out.WriteByte('\n')
		out.Flush()
	}
}

type childRun struct {
	results map[string]concResult
	crashed bool
	stderr  string
	races   []string
}

func runConcChild(scs []concScenario) childRun {
	exe, err := os.Executable()
	if err != nil {
		panic(err)
	}
	tmpRoot := os.Getenv("VERIF_ROOT")
	if tmpRoot == "" {
		tmpRoot = "/verif"
	}
	dir, err := os.MkdirTemp(filepath.Join(tmpRoot, ".tmp"), "race")
	if err != nil {
		panic(err)
	}
	defer os.RemoveAll(dir)
	cmd := exec.Command(exe, "-c17child")
	cmd.Env = append(os.Environ(), "GORACE=log_path="+filepath.Join(dir, "race")+" halt_on_error=0 exitcode=0", "GOMEMLIMIT=2GiB")
	var in strings.Builder
	for _, s := range scs {
		b, _ := json.Marshal(s)
		in.Write(b)
		in.WriteByte('\n')
	}
	cmd.Stdin = strings.NewReader(in.String())
	var stderr strings.Builder
	cmd.Stderr = &stderr
	stdout, err := cmd.StdoutPipe()
	if err != nil {
		panic(err)
	}
	if err := cmd.Start(); err != nil {
		panic(err)
	}
	cr := childRun{results: map[string]concResult{}}
	doneRead := make(chan struct{})
	go func() {
		defer close(doneRead)
		sc := bufio.NewScanner(stdout)
		sc.Buffer(make([]byte, 1<<20), 1<<26)
		for sc.Scan() {
			var r concResult
			if json.Unmarshal(sc.Bytes(), &r) == nil {
				cr.results[r.ID] = r
			}
		}
	}()
	waitErr := make(chan error, 1)
	go func() { <-doneRead; waitErr <- cmd.Wait() }()
	select {
	case err := <-waitErr:
		if err != nil {
			cr.crashed = true
		}
	case <-time.After(time.Duration(60+len(scs)*25) * time.Second):
		cmd.Process.Kill()
		<-waitErr
		cr.crashed = true
		stderr.WriteString("\n[harness] child killed: timeout")
	}
	cr.stderr = stderr.String()
	if len(cr.stderr) > 6000 {
		cr.stderr = cr.stderr[:3000] + "\n…\n" + cr.stderr[len(cr.stderr)-3000:]
	}
	files, _ := filepath.Glob(filepath.Join(dir, "race*"))
	for _, f := range files {
		b, _ := os.ReadFile(f)
		if len(b) > 0 {
			t := string(b)
			if len(t) > 6000 {
				t = t[:6000]
			}
			cr.races = append(cr.races, t)
		}
	}
	return cr
}

func permutations(xs []int) [][]int {
	if len(xs) <= 1 {
		return [][]int{append([]int{}, xs...)}
	}
	var out [][]int
	for i := range xs {
		rest := append(append([]int{}, xs[:i]...), xs[i+1:]...)
		for _, p := range permutations(rest) {
			out = append(out, append([]int{xs[i]}, p...))
		}
	}
	return out
}

var errNoRef = errors.New("no reference")

func genC17(r *Runner) {
	quick := tier() == "quick"
	rng := newRand(17)
	var scs []concScenario
	id := 0
	add := func(s concScenario) {
		id++
		s.ID = fmt.Sprintf("%s-%d", s.Kind, id)
		scs = append(scs, s)
	}
	// behaviour assignments per chain length 2..5
	assignments := map[int][][]string{}
	for n := 2; n <= 5; n++ {
		m := n - 1
		var as [][]string
		mixed := []string{"good", "unknown-crl-clean", "crl-only-clean", "revoked"}
		as = append(as, mixed[:m])
		as = append(as, []string{"revoked", "good", "unknown-crl-listed", "ocsp-500-crl-clean"}[:m])
		as = append(as, []string{"crl-only-listed", "crl-only-clean", "good", "good"}[:m])
		if m >= 2 {
			as = append(as, append([]string{"none"}, []string{"good", "unknown-crl-clean", "revoked"}[:m-1]...))
		}
		nr := 2
		if !quick {
			nr = 8
		}
		for k := 0; k < nr; k++ {
			a := make([]string, m)
			for i := range a {
				a[i] = concBehaviours[rng.Intn(len(concBehaviours))]
			}
			as = append(as, a)
		}
		assignments[n] = as
	}
	live := func(beh []string) []int {
		var out []int
		for i, b := range beh {
			if b != "none" {
				out = append(out, i)
			}
		}
		return out
	}
	ocspOnly := func(beh []string) []string {
		out := make([]string, len(beh))
		for i, b := range beh {
			switch b {
			case "good", "revoked":
				out[i] = b
			case "unknown-crl-clean", "unknown-crl-listed":
				out[i] = "ocsp-only-unknown"
			default:
				out[i] = "ocsp-only-good"
			}
		}
		return out
	}
	for n := 2; n <= 5; n++ {
		for ai, beh := range assignments[n] {
			// reference: no barrier
			add(concScenario{Kind: "ref", Mode: "full", Beh: beh})
			perms := permutations(live(beh))
			for pi, p := range perms {
				if quick && len(perms) > 6 && ai > 1 && rng.Intn(4) != 0 {
					continue
				}
				_ = pi
				add(concScenario{Kind: "perm", Mode: "full", Beh: beh, Order: p})
			}
			if ai < 2 || !quick {
				for _, p := range permutations(live(ocspOnly(beh))) {
					if quick && rng.Intn(3) != 0 {
						continue
					}
					add(concScenario{Kind: "perm", Mode: "ocsp", Beh: ocspOnly(beh), Order: p})
				}
			}
			// a panic at each exchange: released first, last, and ungated; and two panics
			lv := live(beh)
			if ai < 3 || !quick {
				for _, at := range lv {
					first := append([]int{at}, without(lv, at)...)
					last := append(without(lv, at), at)
					add(concScenario{Kind: "panic", Mode: "full", Beh: beh, PanicAt: []int{at}, Order: first})
					add(concScenario{Kind: "panic", Mode: "full", Beh: beh, PanicAt: []int{at}, Order: last})
					add(concScenario{Kind: "panic", Mode: "full", Beh: beh, PanicAt: []int{at}})
				}
				// ocsp.CheckStatus on the OCSP-only projection: every certificate has an exchange there
				lvO := live(ocspOnly(beh))
				for _, at := range lvO {
					add(concScenario{Kind: "panic", Mode: "ocsp", Beh: ocspOnly(beh), PanicAt: []int{at}, Order: append([]int{at}, without(lvO, at)...)})
					add(concScenario{Kind: "panic", Mode: "ocsp", Beh: ocspOnly(beh), PanicAt: []int{at}, Order: append(without(lvO, at), at)})
				}
				if len(lv) >= 2 {
					add(concScenario{Kind: "panic", Mode: "full", Beh: beh, PanicAt: []int{lv[0], lv[len(lv)-1]}, Order: lv})
				}
				if len(lvO) >= 2 {
					add(concScenario{Kind: "panic", Mode: "ocsp", Beh: ocspOnly(beh), PanicAt: append([]int{}, lvO...), Order: lvO})
				}
				// a cancellation at each exchange
				for k := -1; k <= len(lv); k++ {
					add(concScenario{Kind: "cancel", Mode: "full", Beh: beh, Order: lv, CancelAfter: k})
				}
			}
		}
	}
	// concurrent callers sharing everything
	callers := []int{1, 2, 4, 8, 16, 32}
	for _, c := range callers {
		for _, real := range []bool{false, true} {
			n := 2 + rng.Intn(4)
			beh := assignments[n][rng.Intn(2)]
			if real {
				// the real HTTP fetcher with a shared cache: CRLs in play
				beh = []string{"crl-only-clean", "unknown-crl-clean", "crl-only-listed", "good"}[:n-1]
			}
			rounds := 3
			if !quick {
				rounds = 20
			}
			add(concScenario{Kind: "callers", Mode: "full", Beh: beh, Callers: c, RealFetcher: real, Rounds: rounds})
		}
		add(concScenario{Kind: "callers", Mode: "ocsp", Beh: []string{"good", "revoked", "ocsp-only-unknown"}, Callers: c, Rounds: 3})
	}
	// callers sharing parsed bundles that carry a delta list with entries (the same *Bundle object is handed to every check)
	for _, c := range []int{2, 8} {
		for _, beh := range [][]string{{"crl-only-delta-lists", "crl-only-base-lists-delta-removes"}, {"crl-only-many-entries-delta-entries", "crl-only-many-entries-delta-lists", "crl-only-delta-lists"}} {
			add(concScenario{Kind: "callers", Mode: "full", Beh: beh, Callers: c, Rounds: 3})
		}
	}
	// the write-back to the caller's cache: slow, failing, panicking; its error discarded or not
	for _, beh := range [][]string{{"crl-only-clean"}, {"crl-only-listed", "crl-only-clean"}, {"unknown-crl-clean"}} {
		for _, discard := range []bool{false, true} {
			for _, pn := range []bool{false, true} {
				add(concScenario{Kind: "cache-set", Mode: "full", Beh: beh, Discard: discard, CachePanic: pn})
			}
		}
	}
	// overlapping callers, the first one disturbed while its downloads are in flight
	for _, beh := range [][]string{{"crl-only-clean"}, {"crl-only-clean", "crl-only-listed"}, {"unknown-crl-clean", "crl-only-clean"}, {"crl-only-listed", "good", "crl-only-clean"}} {
		add(concScenario{Kind: "callers-mixed", Mode: "full", Beh: beh, CancelAfter: -1})                    // the first caller is cancelled
		add(concScenario{Kind: "callers-mixed", Mode: "full", Beh: beh, CancelAfter: 0, PanicAt: live(beh)}) // the first caller's exchanges panic
		add(concScenario{Kind: "callers-mixed", Mode: "full", Beh: beh, CancelAfter: 0})                     // nobody is disturbed
	}
	// run: groups in child processes; a crashed group is re-run one scenario per child
	results := map[string]concResult{}
	crashes := map[string]string{}
	var races []string
	raceOf := map[string]string{}
	groupSize := 24
	var groups [][]concScenario
	for i := 0; i < len(scs); i += groupSize {
		j := i + groupSize
		if j > len(scs) {
			j = len(scs)
		}
		groups = append(groups, scs[i:j])
	}
	var mu sync.Mutex
	runJobs(len(groups), func(gi int) {
		grp := groups[gi]
		cr := runConcChild(grp)
		mu.Lock()
		for k, v := range cr.results {
			results[k] = v
		}
		mu.Unlock()
		if cr.crashed || len(cr.races) > 0 {
			// isolate
			for _, s := range grp {
				one := runConcChild([]concScenario{s})
				mu.Lock()
				if v, ok := one.results[s.ID]; ok {
					results[s.ID] = v
				} else {
					delete(results, s.ID)
				}
				if one.crashed {
					crashes[s.ID] = one.stderr
				}
				if len(one.races) > 0 {
					raceOf[s.ID] = one.races[0]
				}
				mu.Unlock()
			}
			if len(cr.races) > 0 {
				mu.Lock()
				races = append(races, cr.races...)
				mu.Unlock()
			}
		}
	})
	// references: by behaviour assignment
	refs := map[string][]string{}
	for _, s := range scs {
		if s.Kind == "ref" {
			if v, ok := results[s.ID]; ok && v.Outcome == "returned" {
				refs[strings.Join(s.Beh, ",")] = v.Results
			}
		}
	}
	in := &interner{}
	// the root's fixed entry gets code 0 (the model's rootMark)
	for _, v := range refs {
		in.id([]byte(v[len(v)-1]))
		break
	}
	codes := func(rs []string) []int {
		out := make([]int, len(rs))
		for i, x := range rs {
			out[i] = in.id([]byte(x))
		}
		return out
	}
	arrivalOrders := map[string]int{}
	unordered := 0
	var cases []*Case
	for _, s := range scs {
		res, have := results[s.ID]
		if s.Kind == "cache-set" {
			impl := map[string]any{"outcome": res.Outcome, "returned_while_cache_set_was_running": res.ReturnedEarly, "goroutines_leaked": res.Leaked, "_error": res.Error, "_panic": res.Panic}
			clause := ""
			stderr, crashed := crashes[s.ID]
			switch {
			case crashed || !have:
				impl["outcome"], impl["_stderr"] = "process-aborted", stderr
				clause = "process_killed_from_a_background_goroutine"
			case res.ReturnedEarly:
				clause = "check_returned_while_a_goroutine_it_started_was_still_running"
			case res.Leaked > 0:
				clause = "goroutines_left_behind"
			case s.CachePanic && res.Outcome != "panic":
				clause = "panic_in_caller_supplied_code_did_not_resurface_on_the_caller"
			case !s.CachePanic && res.Outcome != "returned":
				clause = "check_with_a_failing_cache_store_did_not_return_results"
			}
			if rc, ok := raceOf[s.ID]; ok {
				impl["data_race"] = rc
				clause = "data_race"
			}
			c := &Case{ID: s.ID, K: "conc", In: map[string]any{"kind": s.Kind, "beh": s.Beh, "discard": s.Discard, "cache_set_panics": s.CachePanic}, Impl: impl,
				Class: "cache-set/full", Replay: map[string]any{"scenario": s, "how": "harness -c17child < scenario.json (built with -race)"}}
			c.local, c.localClause = true, clause
			cases = append(cases, c)
			continue
		}
		m := len(s.Beh)
		ref := refs[strings.Join(s.Beh, ",")]
		f := []any{}
		panicSet := map[int]bool{}
		for _, p := range s.PanicAt {
			panicSet[p] = true
		}
		var refCodes []int
		if s.Mode == "full" && ref != nil {
			refCodes = codes(ref)
		}
		for i := 0; i < m; i++ {
			switch {
			case panicSet[i]:
				f = append(f, map[string]any{"panic": i})
			case refCodes != nil:
				f = append(f, map[string]any{"val": refCodes[i]})
			default:
				f = append(f, map[string]any{"val": 1000 + i})
			}
		}
		order := s.Order
		if order == nil {
			order = []int{}
		}
		if s.Kind == "callers-mixed" {
			// the panics (if any) belong to the disturbed caller; the case is about the undisturbed one
			f = []any{}
			for i := 0; i < m; i++ {
				f = append(f, map[string]any{"val": 2000 + i})
			}
		}
		inp := map[string]any{"m": m, "f": f, "order": order, "kind": s.Kind, "compare_results": s.Mode == "full" && ref != nil && (s.Kind == "perm" || s.Kind == "callers" || s.Kind == "ref"),
			"beh": s.Beh, "mode": s.Mode, "cancel_after": s.CancelAfter, "callers": s.Callers, "real_fetcher": s.RealFetcher}
		impl := map[string]any{}
		if stderr, crashed := crashes[s.ID]; crashed || !have {
			impl["outcome"] = "process-aborted"
			impl["_stderr"] = stderr
		} else {
			impl["outcome"] = res.Outcome
			if res.Outcome == "returned" {
				if inp["compare_results"].(bool) {
					impl["slots"] = codes(res.Results)
				} else {
					impl["_slots"] = codes(res.Results)
				}
			}
			if res.Outcome == "panic" {
				impl["_panic"] = res.Panic
				// which check's panic it is
				lv := -1
				fmt.Sscanf(res.Panic, "injected panic in the exchange of certificate %d", &lv)
				if len(s.PanicAt) > 1 {
					impl["_panic_of"] = lv // which of several panics wins depends on the schedule
				} else {
					impl["panic_of"] = lv
				}
			}
			if res.Outcome == "error" {
				impl["_error"] = res.Error
			}
			impl["inflight_at_return"] = res.Inflight
			impl["goroutines_leaked"] = res.Leaked
			if res.CallersDisagree != "" {
				impl["callers_disagree"] = res.CallersDisagree
			}
			if s.Kind == "perm" || s.Kind == "panic" && len(s.Order) > 0 || s.Kind == "cancel" {
				impl["_all_arrived_together"] = res.AllArrivedTogether
				arrivalOrders[fmt.Sprint(res.Arrival)]++
				if !res.Ordered {
					unordered++
				}
			}
		}
		if rc, ok := raceOf[s.ID]; ok {
			impl["data_race"] = rc
		}
		c := &Case{ID: s.ID, K: "conc", In: inp, Impl: impl, Class: s.Kind + "/" + s.Mode + fmt.Sprintf("/chain%d", m+1),
			Replay: map[string]any{"scenario": s, "how": "harness -c17child < scenario.json (built with -race)"}}
		c.Dist = map[string]string{"kind": s.Kind + "/" + s.Mode, "chain-length": fmt.Sprint(m + 1)}
		cases = append(cases, c)
	}
	// the summary's extras are set before the first case is submitted (the reader goroutine owns the summary afterwards)
	r.sum.Extra["arrival_orders_seen"] = len(arrivalOrders)
	r.sum.Extra["scenarios_whose_completion_order_could_not_be_confirmed"] = unordered
	r.sum.Extra["race_reports_in_group_runs"] = len(races)
	for _, c := range cases {
		r.Submit(c)
	}
	_ = io.Discard
}

func without(xs []int, x int) []int {
	var out []int
	for _, y := range xs {
		if y != x {
			out = append(out, y)
		}
	}
	return out
}
