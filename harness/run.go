package main

// Case plumbing: cases are streamed to the Lean driver (the model's executable definitions), the
// answers are compared with what the implementation did, and a summary is written for ./check.

import (
	"bufio"
	"crypto/sha256"
	"encoding/hex"
	"encoding/json"
	"fmt"
	"os"
	"os/exec"
	"reflect"
	"sort"
	"strings"
	"sync"
)

type Case struct {
	ID      string            `json:"id"`
	K       string            `json:"k"`
	In      map[string]any    `json:"in"`
	Impl    map[string]any    `json:"impl"`
	Class   string            `json:"class"`             // coverage class label (input kind)
	Tags    []string          `json:"tags,omitempty"`    // used to match known findings
	Trivial bool              `json:"trivial,omitempty"` // e.g. rejected before the modelled logic ran
	Replay  any               `json:"replay,omitempty"`  // concrete material: PEM, bytes, op sequence
	Dist    map[string]string `json:"-"`                 // input dimensions for the distribution table of the evidence
	// local cases are decided by the harness alone (nothing to compute on the model side: "terminated with a
	// value or an error"); localClause != "" makes it a violation; weight = how many executions it stands for
	local          bool
	localClause    string
	weight         int
	distinctWeight int
}

type Problem struct {
	Kind   string `json:"kind"` // "spec" (implementation output violates the monitor), "disagree", "driver-error", "impl-panic"
	Clause string `json:"clause,omitempty"`
	Case   *Case  `json:"case"`
	Model  any    `json:"model,omitempty"`
	Detail string `json:"detail,omitempty"`
}

type Summary struct {
	Property     string         `json:"property"`
	Evaluations  int            `json:"evaluations"`
	Distinct     int            `json:"distinct_nontrivial"`
	Classes      map[string]int `json:"classes"`
	ImplOutcomes map[string]int `json:"impl_outcomes"`
	Samples      []*Case        `json:"samples"`
	Problems     []*Problem     `json:"problems"`
	ProblemCount int            `json:"problem_count"`
	Exhaustive   bool           `json:"exhaustive"`
	Notes        []string       `json:"notes,omitempty"`
	Extra        map[string]any `json:"extra,omitempty"`
}

type Runner struct {
	prop        string
	cmd         *exec.Cmd
	lines       chan []byte
	out         *bufio.Scanner
	pending     chan *Case
	wg          sync.WaitGroup
	mu          sync.Mutex
	sum         *Summary
	seen        map[string]bool
	outcomeOf   func(c *Case) string
	maxProblems int
	perClause   map[string]int
}

func NewRunner(prop string) *Runner {
	drv := os.Getenv("VERIF_DRIVER")
	if drv == "" {
		drv = "/verif/lean/.lake/build/bin/driver"
	}
	cmd := exec.Command(drv)
	stdin, err := cmd.StdinPipe()
	if err != nil {
		panic(err)
	}
	stdout, err := cmd.StdoutPipe()
	if err != nil {
		panic(err)
	}
	cmd.Stderr = os.Stderr
	if err := cmd.Start(); err != nil {
		panic(err)
	}
	sc := bufio.NewScanner(stdout)
	sc.Buffer(make([]byte, 1<<20), 1<<28)
	r := &Runner{prop: prop, cmd: cmd, lines: make(chan []byte, 1024), out: sc,
		pending: make(chan *Case, 4096), seen: map[string]bool{}, maxProblems: 50,
		sum: &Summary{Property: prop, Classes: map[string]int{}, ImplOutcomes: map[string]int{}, Extra: map[string]any{}}}
	r.wg.Add(1)
	go r.reader()
	go func() {
		w := bufio.NewWriterSize(stdin, 1<<20)
		for l := range r.lines {
			w.Write(l)
			w.WriteByte('\n')
			if len(r.lines) == 0 {
				w.Flush()
			}
		}
		w.Flush()
		stdin.Close()
	}()
	return r
}

func canon(v any) any {
	b, err := json.Marshal(v)
	if err != nil {
		panic(err)
	}
	var out any
	d := json.NewDecoder(bytesReader(b))
	d.UseNumber()
	if err := d.Decode(&out); err != nil {
		panic(err)
	}
	return out
}

// subsetEqual: every key of impl is present in model with an equal value; nested objects are compared
// the same way (recursively); keys starting with "_" are informational and ignored.
func subsetEqual(impl, model map[string]any) (bool, string) {
	for k, v := range impl {
		if len(k) > 0 && k[0] == '_' {
			continue
		}
		mv, ok := model[k]
		if !ok {
			return false, "model lacks " + k
		}
		if vm, ok := canon(v).(map[string]any); ok {
			if mm, ok := canon(mv).(map[string]any); ok {
				if ok2, where := subsetEqual(vm, mm); !ok2 {
					return false, k + "." + where
				}
				continue
			}
			return false, k
		}
		if !reflect.DeepEqual(canon(v), canon(mv)) {
			return false, k
		}
	}
	return true, ""
}

// Submit sends one case to the model. Safe for concurrent use.
func (r *Runner) Submit(c *Case) {
	if c.local {
		r.mu.Lock()
		r.pending <- c
		r.mu.Unlock()
		return
	}
	line, err := json.Marshal(map[string]any{"id": c.ID, "p": r.prop, "k": c.K, "in": c.In, "impl": c.Impl})
	if err != nil {
		panic(err)
	}
	r.mu.Lock()
	r.lines <- line
	r.pending <- c
	r.mu.Unlock()
}

func (r *Runner) addProblem(p *Problem) {
	r.sum.ProblemCount++
	// a few per (kind, clause): many instances of one finding (a known one, say) must not crowd out another
	if r.perClause == nil {
		r.perClause = map[string]int{}
	}
	k := p.Kind + "|" + p.Clause
	r.perClause[k]++
	if r.perClause[k] <= 8 && len(r.sum.Problems) < 400 {
		r.sum.Problems = append(r.sum.Problems, p)
	}
}

func (r *Runner) reader() {
	defer r.wg.Done()
	for c := range r.pending {
		if c.local {
			w := c.weight
			if w == 0 {
				w = 1
			}
			r.sum.Evaluations += w
			r.sum.Classes[c.Class] += w
			if c.distinctWeight > 0 {
				r.sum.Distinct += c.distinctWeight
			} else {
				r.sum.Distinct += w
			}
			if len(r.sum.Samples) < 8 {
				cc := *c
				cc.Replay = nil
				r.sum.Samples = append(r.sum.Samples, &cc)
			}
			if r.outcomeOf != nil {
				r.sum.ImplOutcomes[r.outcomeOf(c)] += w
			}
			if c.localClause != "" {
				kind := "spec"
				r.addProblem(&Problem{Kind: kind, Clause: c.localClause, Case: c})
			}
			continue
		}
		if !r.out.Scan() {
			r.addProblem(&Problem{Kind: "driver-error", Case: c, Detail: "driver closed its output"})
			continue
		}
		var ans struct {
			ID    string         `json:"id"`
			Out   map[string]any `json:"out"`
			Error string         `json:"error"`
		}
		d := json.NewDecoder(bytesReader(r.out.Bytes()))
		d.UseNumber()
		if err := d.Decode(&ans); err != nil {
			r.addProblem(&Problem{Kind: "driver-error", Case: c, Detail: "bad answer: " + err.Error()})
			continue
		}
		if t := os.Getenv("VERIF_TRACE"); t != "" && strings.Contains(c.ID, t) {
			ib, _ := json.Marshal(c.Impl)
			fmt.Fprintf(os.Stderr, "TRACE %s\n  impl  %s\n  model %s\n", c.ID, ib, r.out.Bytes())
		}
		r.sum.Evaluations++
		r.sum.Classes[c.Class]++
		if c.Dist != nil {
			dist, _ := r.sum.Extra["distribution"].(map[string]map[string]int)
			if dist == nil {
				dist = map[string]map[string]int{}
				r.sum.Extra["distribution"] = dist
			}
			oc := "error"
			if o, isStr := c.Impl["outcome"].(string); isStr {
				oc = o
			} else if ok, _ := c.Impl["ok"].(bool); ok {
				oc = "ok"
			} else if cl, _ := c.Impl["_class"].(string); cl != "" {
				oc = "error:" + cl
			}
			for dim, v := range c.Dist {
				if dist[dim] == nil {
					dist[dim] = map[string]int{}
				}
				dist[dim][v+" -> "+oc]++
			}
		}
		if r.outcomeOf != nil {
			r.sum.ImplOutcomes[r.outcomeOf(c)]++
		}
		// distinct non-trivial: by hash of the abstract input
		if !c.Trivial {
			b, _ := json.Marshal(c.In)
			h := sha256.Sum256(b)
			k := hex.EncodeToString(h[:8])
			if !r.seen[k] {
				r.seen[k] = true
				r.sum.Distinct++
				if len(r.sum.Samples) < 4 || (len(r.sum.Samples) < 12 && r.sum.Classes[c.Class] == 1) {
					cc := *c
					cc.Replay = nil
					r.sum.Samples = append(r.sum.Samples, &cc)
				}
			}
		}
		if ans.Error != "" {
			r.addProblem(&Problem{Kind: "driver-error", Case: c, Detail: ans.Error})
			continue
		}
		// spec monitor evaluated on the implementation's output (if the handler provides one)
		if sp, ok := ans.Out["spec"].(map[string]any); ok {
			if okv, _ := sp["ok"].(bool); !okv {
				cl, _ := sp["clause"].(string)
				r.addProblem(&Problem{Kind: "spec", Clause: cl, Case: c, Model: ans.Out["model"]})
				continue
			}
		}
		model, _ := ans.Out["model"].(map[string]any)
		if model == nil {
			model = ans.Out
		}
		// a recovered panic of the implementation where the model returns: a concrete failing input whatever else differs
		if pv, has := findPanic(c.Impl); has && c.K != "conc" {
			if _, mhas := findPanic(model); !mhas {
				r.addProblem(&Problem{Kind: "impl-panic", Clause: "implementation_panicked_where_the_model_returns", Case: c, Model: model, Detail: pv})
				continue
			}
		}
		// a defect the harness established on the implementation's own output (a member named "..._defect": "clause: detail")
		if dv, has := findDefect(c.Impl); has {
			cl := dv
			if i := strings.Index(dv, ":"); i > 0 {
				cl = dv[:i]
			}
			r.addProblem(&Problem{Kind: "spec", Clause: cl, Case: c, Model: model, Detail: dv})
			continue
		}
		if ok, where := subsetEqual(c.Impl, model); !ok {
			r.addProblem(&Problem{Kind: "disagree", Clause: where, Case: c, Model: model})
		}
	}
}

func (r *Runner) Finish(path string) *Summary {
	close(r.lines)
	close(r.pending)
	r.wg.Wait()
	r.cmd.Wait()
	sort.Slice(r.sum.Problems, func(i, j int) bool { return r.sum.Problems[i].Kind > r.sum.Problems[j].Kind })
	b, err := json.MarshalIndent(r.sum, "", " ")
	if err != nil {
		panic(err)
	}
	if path != "" {
		if err := os.WriteFile(path, b, 0644); err != nil {
			panic(err)
		}
	}
	fmt.Fprintf(os.Stderr, "[%s] evaluations=%d distinct=%d problems=%d classes=%d\n", r.prop, r.sum.Evaluations, r.sum.Distinct, r.sum.ProblemCount, len(r.sum.Classes))
	return r.sum
}

// findPanic: a member named "panic" / "..._panic" with a value, or {"o": "panic"}, anywhere in v
func findPanic(v any) (string, bool) {
	switch x := v.(type) {
	case map[string]any:
		for k, e := range x {
			if (k == "panic" || strings.HasSuffix(k, "_panic")) && e != nil && e != false {
				return fmt.Sprint(e), true
			}
			if k == "o" && e == "panic" {
				return fmt.Sprint(x["detail"]), true
			}
			if s, ok := findPanic(e); ok {
				return s, true
			}
		}
	case []any:
		for _, e := range x {
			if s, ok := findPanic(e); ok {
				return s, true
			}
		}
	case []map[string]any:
		for _, e := range x {
			if s, ok := findPanic(e); ok {
				return s, true
			}
		}
	}
	return "", false
}

// findDefect: a member named "..._defect" with a non-empty string value, anywhere in v
func findDefect(v any) (string, bool) {
	switch x := v.(type) {
	case map[string]any:
		for k, e := range x {
			if strings.HasSuffix(k, "_defect") {
				if s, ok := e.(string); ok && s != "" {
					return s, true
				}
			}
			if s, ok := findDefect(e); ok {
				return s, true
			}
		}
	case []any:
		for _, e := range x {
			if s, ok := findDefect(e); ok {
				return s, true
			}
		}
	}
	return "", false
}
