import NotationCore.Generated.Tables
import NotationCore.Generated.Shape
/-! Tie lemmas (Ocsp): facts extracted from the current Go source equal the facts the hand-written model was written for. -/
namespace NotationCore.Tie
open NotationCore.Generated

/-- OCSP `checkStatusFromServer` — Model.Ocsp.checkStatusFromServer -/
theorem ocsp_checkStatusFromServer :
    Shape.ocsp_checkStatusFromServer =
      ["time.Now().After(resp.NextUpdate)", "!opts.SigningTime.IsZero()", "opts.SigningTime.Before(invalidityDate)"] := rfl

end NotationCore.Tie
