import DriverLib.Envelope
import NotationCore.Model.Conc
/-! driver handler: the fork/join skeleton (C17) -/
namespace DriverLib
open Lean NotationCore NotationCore.Conc

def resOf (j : Json) : E (Res Nat) :=
  match fldOpt j "panic" with
  | some p => do pure (.panic (← p.getNat?))
  | none => do pure (.val (← fldNat j "val"))

/-- the schedule the barrier enforces: everything is spawned, the goroutines complete one after
    the other in `order` (the rest in index order), then the main goroutine goes on -/
def schedOf (m : Nat) (order : List Nat) : List Tid :=
  let rest := (List.range m).filter (fun i => !order.contains i)
  List.replicate (m + 2) Tid.main ++ (order ++ rest).flatMap (fun i => [Tid.task i, Tid.task i, Tid.task i]) ++ [Tid.main, Tid.main]

/-- C17 evaluated on what the implementation did -/
def monitorConc (kind : String) (compare : Bool) (fs : List (Res Nat)) (final : State Nat) (impl : Json) : E (Option String) := do
  let outcome ← fldStr impl "outcome"
  if outcome == "process-aborted" then return some "process_aborted_by_a_panic_on_a_background_goroutine"
  if (fldOpt impl "data_race").isSome then return some "data_race"
  if (← fldNat impl "inflight_at_return") != 0 then return some "returned_while_an_exchange_it_started_was_still_running"
  if (← fldNat impl "goroutines_leaked") != 0 then return some "goroutines_left_behind"
  if (fldOpt impl "callers_disagree").isSome then return some "concurrent_callers_interfere"
  if outcome == "error" && kind != "cancel" then return some "call_fails_or_does_not_return"
  let panics := (fs.zipIdx.filterMap (fun (r, i) => match r with | .panic _ => some i | .val _ => none))
  if !panics.isEmpty then
    if outcome != "panic" then return some "panic_of_a_check_lost"
    let who : Option Int := match fldOpt impl "panic_of" with
      | some v => v.getInt?.toOption
      | none => match fldOpt impl "_panic_of" with
        | some v => v.getInt?.toOption
        | none => none
    match who with
    | some w => if !(panics.any (fun i => (i : Int) == w)) then return some "re-panicked_value_is_not_a_check's_panic"
    | none => return some "re-panicked_value_not_observed"
    return none
  if kind == "cancel" then return none
  if outcome == "panic" then return some "panic_out_of_nowhere"
  if outcome == "error" then return some "call_fails_or_does_not_return"
  if compare then
    let slots ← natList impl "slots"
    let want := (List.range (slots.length)).map (fun i => (final.slots i).getD 999999)
    if slots != want then return some "results_depend_on_the_completion_order_or_on_other_callers"
  return none

/-- in: {m, f, order, kind, compare_results}; out: {outcome, slots, …} -/
def handleConc (j impl : Json) : E Json := do
  let m ← fldNat j "m"
  let fs ← fldList j "f" resOf
  let order ← natList j "order"
  let kind ← fldStr j "kind"
  let compare ← fldBool j "compare_results"
  let e : Env Nat := { m := m, f := fun i => fs.getD i (.val 0), root := 0 }
  let final := runSched e init (schedOf m order)
  -- the schedule is complete: nothing can move any more
  if !terminal final then throw "model: schedule did not end the call"
  let verdict ← monitorConc kind compare fs final impl
  let implOutcome ← fldStr impl "outcome"
  let common := [("inflight_at_return", jnat 0), ("goroutines_leaked", jnat 0)]
  let model := match final.main with
    | .repanicked p => jobj ([("outcome", jstr "panic"), ("panic_of", jnat p)] ++ common)
    | _ =>
      let slots := (List.range (m + 1)).map (fun i => jnat ((final.slots i).getD 999999))
      jobj ([("outcome", jstr (if kind == "cancel" then implOutcome else "returned"))] ++ (if compare then [("slots", jarr slots)] else []) ++ common)
  pure (jobj [("model", model), ("spec", specJson verdict)])

end DriverLib
