import NotationCore.Tie.Code.X509Chain
/-!
  Tie by translation, the chain walk: one pass through the body of
  `for i, cert := range certChain` in `ValidateCodeSigningCertChain` means one step of the model's
  `loopFrom` (`validateSigningTime`, `linkCheck`, `posCheck`), the whole loop means `loopFrom`,
  and the function means `Chain.validate .codeSigning` — for every chain length.
-/
namespace NotationCore.Tie.Code.X509
open NotationCore GoSem Chain Algorithm Generated.Ast

/-- a certificate of the chain with the extension list the code walks -/
abbrev CertX := Cert × List (Int × Bool)
def cvp (x : CertX) : Val := certV x.1 x.2

def csWalkBody : List Stmt := rangeBody (x509_ValidateCodeSigningCertChain.body.getD 2 (.opaque ""))

/-- the store of `ValidateCodeSigningCertChain` when the loop is entered -/
def walkStore (L : List Val) (st : Option Int) : Store := [[("v1", optT st), ("v0", .list L)]]

@[simp] theorem flatten_certV (c : Cert) (e : List (Int × Bool)) : flatten [certV c e] = [certV c e] := rfl

section
variable (sig : Sig) (sigSelf : SigSelf)

/-- what one iteration of the model does -/
def iter (i : Nat) (c : Cert) (rest : List Cert) (st : Option Int) : R := do
  validateSigningTime c st
  linkCheck sig sigSelf i c rest
  posCheck .codeSigning i c

theorem csWalkStep (n : Nat) (L : List Val) (st : Option Int) (i : Nat) (c : CertX) (r : List CertX)
    (hc : ExtsAgree c.1 c.2)
    (hlen : (L.length : Int) = i + 1 + r.length)
    (hidx : ∀ p' r', r = p' :: r' → L[i + 1]? = some (cvp p')) :
    (fun s => execBlock ⟨"ValidateCodeSigningCertChain", prims sig sigSelf, sem (prims sig sigSelf) funcs (n + 3)⟩ s csWalkBody)
        ([("v7", cvp c), ("v6", .int i)] :: walkStore L st)
      = match iter sig sigSelf i c.1 (r.map (·.1)) st with
        | .ok _ => .next ([("v7", cvp c), ("v6", .int i)] :: walkStore L st)
        | .error e => .ret [site .codeSigning e] := by
  obtain ⟨c, ce⟩ := c
  simp only at hc
  -- the callees, at the depth at which the walk calls them
  have hST : call[sig, sigSelf] (n + 3) "validateSigningTime" [certV c ce, optT st] = _ :=
    validateSigningTime_eq sig sigSelf .codeSigning (n + 2) c ce st
  have hSS : call[sig, sigSelf] (n + 3) "isSelfSigned" [certV c ce] = _ := isSelfSigned_eq sig sigSelf (n + 1) c ce
  have hHS : call[sig, sigSelf] (n + 3) "hasSelfSignature" [certV c ce] = _ := hasSelfSignature_eq sig sigSelf (n + 2) c ce
  have hLeaf := validateCodeSigningLeafCertificate_eq sig sigSelf n c ce hc
  have hroot : ((i : Int) = (L.length : Int) - 1) ↔ r = [] := by
    rw [hlen]; cases r <;> simp <;> omega
  have hk : ¬ ((i : Int) + 1 < 0) := by omega
  have hk2 : ((i : Int) + 1).toNat = i + 1 := by omega
  unfold iter
  simp only [csWalkBody, rangeBody, x509_ValidateCodeSigningCertChain, List.getD_cons_succ, List.getD_cons_zero, walkStore, cvp]
  cases rST : validateSigningTime c st with
  | error e =>
    rw [rST] at hST
    go_eval [hST, prims, bind, Except.bind]
  | ok u =>
    rw [rST] at hST
    cases r with
    | nil =>
      -- root position
      have hr : (L.length : Int) = i + 1 := by simpa using hlen
      cases rI : isIssuedBy sig c c with
      | error u2 =>
        rw [rI] at hSS
        go_eval [hST, hSS, prims, bind, Except.bind, hr, linkCheck, rI, issuedV, site, chainFn, primErr]
      | ok b =>
        rw [rI] at hSS
        cases b
        · go_eval [hST, hSS, prims, bind, Except.bind, hr, linkCheck, rI, issuedV, site, chainFn]
        · -- a self-signed root: the position check
          cases i with
          | zero =>
            generalize hX : leafChecks .codeSigning c = X at hLeaf
            cases X with
            | ok u3 => go_eval [hST, hSS, hLeaf, prims, bind, Except.bind, hr, linkCheck, rI, issuedV, posCheck, hX]
            | error e => go_eval [hST, hSS, hLeaf, prims, bind, Except.bind, hr, linkCheck, rI, issuedV, posCheck, hX]
          | succ i' =>
            have hCA := validateCodeSigningCACertificate_eq sig sigSelf n c ce hc i'
            have hi : ¬ ((i' : Int) + 1 = 0) := by omega
            generalize hX : caChecks .codeSigning c i' = X at hCA
            cases X with
            | ok u3 => go_eval [hST, hSS, hCA, prims, bind, Except.bind, hr, linkCheck, rI, issuedV, posCheck, hX, hi]
            | error e => go_eval [hST, hSS, hCA, prims, bind, Except.bind, hr, linkCheck, rI, issuedV, posCheck, hX, hi]
    | cons p' r' =>
      obtain ⟨pc, pe⟩ := p'
      have hne : ((i : Int) = (L.length : Int) - 1) = False := by simp [hroot]
      have hix : L[i + 1]? = some (certV pc pe) := hidx (pc, pe) r' rfl
      have hIB : call[sig, sigSelf] (n + 3) "isIssuedBy" [certV c ce, certV pc pe] = _ :=
        isIssuedBy_eq sig sigSelf (n + 2) c pc ce pe
      by_cases hi : i = 0
      · -- the leaf position
        subst hi
        replace hne : ((0 : Int) = (L.length : Int) - 1) = False := by simpa using hne
        replace hix : L[1]? = some (certV pc pe) := by simpa using hix
        cases hsd : selfSignedDirect sigSelf c
        · rw [hsd] at hHS
          cases rI : isIssuedBy sig c pc with
          | error u2 =>
            rw [rI] at hIB
            go_eval [hST, hHS, hIB, prims, bind, Except.bind, hne, hix, linkCheck, hsd, rI, issuedV, site, chainFn, primErr]
          | ok b =>
            rw [rI] at hIB
            cases b
            · go_eval [hST, hHS, hIB, prims, bind, Except.bind, hne, hix, linkCheck, hsd, rI, issuedV, site, chainFn]
            · generalize hX : leafChecks .codeSigning c = X at hLeaf
              cases X with
              | ok u3 => go_eval [hST, hHS, hIB, hLeaf, prims, bind, Except.bind, hne, hix, linkCheck, hsd, rI, issuedV, posCheck, hX]
              | error e => go_eval [hST, hHS, hIB, hLeaf, prims, bind, Except.bind, hne, hix, linkCheck, hsd, rI, issuedV, posCheck, hX]
        · rw [hsd] at hHS
          go_eval [hST, hHS, prims, bind, Except.bind, hne, linkCheck, hsd, site, chainFn]
      · -- an intermediate position
        have hi0 : ((i : Int) = 0) = False := by simp; omega
        have hm : (i : Int) - 1 = ((i - 1 : Nat) : Int) := by omega
        have hb : (i == 0) = false := by simp [hi]
        have hCA := validateCodeSigningCACertificate_eq sig sigSelf n c ce hc (i - 1)
        rw [← hm] at hCA
        cases hsd : selfSignedDirect sigSelf c
        · rw [hsd] at hHS
          cases rI : isIssuedBy sig c pc with
          | error u2 =>
            rw [rI] at hIB
            go_eval [hST, hHS, hIB, prims, bind, Except.bind, hne, hix, hk, hk2, linkCheck, hsd, rI, issuedV, site, chainFn, primErr]
          | ok b =>
            rw [rI] at hIB
            cases b
            · go_eval [hST, hHS, hIB, prims, bind, Except.bind, hne, hix, hk, hk2, linkCheck, hsd, rI, issuedV, site, chainFn]
            · generalize hX : caChecks .codeSigning c (i - 1) = X at hCA
              cases X with
              | ok u3 =>
                go_eval [hST, hHS, hIB, hCA, prims, bind, Except.bind, hne, hix, hk, hk2, hi0, hi, hb, linkCheck, hsd, rI, issuedV, posCheck, hX]
              | error e =>
                go_eval [hST, hHS, hIB, hCA, prims, bind, Except.bind, hne, hix, hk, hk2, hi0, hi, hb, linkCheck, hsd, rI, issuedV, posCheck, hX]
        · rw [hsd] at hHS
          go_eval [hST, hHS, prims, bind, Except.bind, hne, hi0, hi, hb, linkCheck, hsd, site, chainFn]

theorem loopFrom_cons_iter (st : Option Int) (i : Nat) (c : Cert) (rest : List Cert) :
    loopFrom .codeSigning sig sigSelf st i (c :: rest)
      = match iter sig sigSelf i c rest st with
        | .ok _ => loopFrom .codeSigning sig sigSelf st (i + 1) rest
        | .error e => .error e := by
  simp only [loopFrom, iter, bind, Except.bind]
  cases validateSigningTime c st <;> simp
  cases linkCheck sig sigSelf i c rest <;> simp
  cases posCheck .codeSigning i c <;> simp

/-- the whole `for i, cert := range certChain` is the model's `loopFrom` -/
theorem csWalkLoop (n : Nat) (L : List Val) (st : Option Int) : ∀ (rest : List CertX) (pre : List Val),
    L = pre ++ rest.map cvp → (∀ x ∈ rest, ExtsAgree x.1 x.2) →
    rangeLoop (fun s => execBlock ⟨"ValidateCodeSigningCertChain", prims sig sigSelf, sem (prims sig sigSelf) funcs (n + 3)⟩ s csWalkBody)
        "v6" "v7" pre.length (rest.map cvp) (walkStore L st)
      = match loopFrom .codeSigning sig sigSelf st pre.length (rest.map (·.1)) with
        | .ok _ => .next (walkStore L st)
        | .error e => .ret [site .codeSigning e] := by
  intro rest
  induction rest with
  | nil => intro pre _ _; simp [rangeLoop, loopFrom]
  | cons c r ih =>
    intro pre hL hag
    have hc : ExtsAgree c.1 c.2 := hag c (by simp)
    have hlen : (L.length : Int) = pre.length + 1 + r.length := by
      rw [hL]; simp; omega
    have hidx : ∀ p' r', r = p' :: r' → L[pre.length + 1]? = some (cvp p') := by
      intro p' r' hr
      rw [hL, hr]
      simp [List.getElem?_append_right]
    have step := csWalkStep sig sigSelf n L st pre.length c r hc hlen hidx
    have ih' := ih (pre ++ [cvp c]) (by rw [hL]; simp) (fun x hx => hag x (by simp [hx]))
    simp only [List.length_append, List.length_cons, List.length_nil, Nat.zero_add] at ih'
    generalize (fun s => execBlock ⟨"ValidateCodeSigningCertChain", prims sig sigSelf, sem (prims sig sigSelf) funcs (n + 3)⟩ s csWalkBody)
      = F at step ih' ⊢
    simp only [List.map_cons, loopFrom_cons_iter]
    cases hit : iter sig sigSelf pre.length c.1 (List.map (fun x => x.1) r) st with
    | error e =>
      rw [hit] at step
      simp [rangeLoop, sbindAll, sbind, sdefine, fset, walkStore] at step ⊢
      simp [step]
    | ok u =>
      rw [hit] at step
      simp [rangeLoop, sbindAll, sbind, sdefine, fset, walkStore, spop] at step ih' ⊢
      simp [step, ih']

/-- The Go `error` value `ValidateCodeSigningCertChain` returns, written along the model's own
    computation: errors of the leaf checks of a single self-signed certificate arrive wrapped
    (`fmt.Errorf("invalid self-signed certificate. Error: %w", err)`), everything else as created. -/
def chainV (chain : List Cert) (st : Option Int) : Val :=
  match chain with
  | [] => site .codeSigning .empty
  | [c] =>
    if !sigSelf c.id then site .codeSigning .notSelfSigned1
    else if c.subject != c.issuer then site .codeSigning .notSelfIssued1
    else match validateSigningTime c st with
      | .error e => site .codeSigning e
      | .ok _ => match leafChecks .codeSigning c with
        | .error e => .err "ValidateCodeSigningCertChain" 3 [site .codeSigning e]
        | .ok _ => .nil
  | _ => errV .codeSigning (loopFrom .codeSigning sig sigSelf st 0 chain)

theorem site_ne_nil (p : Purpose) (e : Err) : site p e ≠ .nil := by
  cases e <;> cases p <;> simp [site]

/-- the value is nil exactly when the model accepts -/
theorem chainV_nil_iff (chain : List Cert) (st : Option Int) :
    chainV sig sigSelf chain st = .nil ↔ validate .codeSigning sig sigSelf chain st = .ok () := by
  unfold chainV validate
  match chain with
  | [] => simp [site_ne_nil]
  | [c] =>
    cases h1 : sigSelf c.id
    · simp [h1, site_ne_nil]
    · by_cases h2 : c.subject = c.issuer
      · cases h3 : validateSigningTime c st
        · simp [h1, h2, h3, site_ne_nil, bind, Except.bind]
        · cases h4 : leafChecks .codeSigning c <;> simp [h1, h2, h3, h4, bind, Except.bind]
      · simp [h1, h2, site_ne_nil]
  | c1 :: c2 :: r =>
    simp
    cases loopFrom .codeSigning sig sigSelf st 0 (c1 :: c2 :: r) <;> simp [errV, site_ne_nil]

/-- **`ValidateCodeSigningCertChain`, as regenerated from the source, is the model's `validate`.** -/
theorem ValidateCodeSigningCertChain_eq (n : Nat) (chain : List CertX) (hag : ∀ x ∈ chain, ExtsAgree x.1 x.2)
    (st : Option Int) :
    call[sig, sigSelf] (n + 4) "ValidateCodeSigningCertChain" [.list (chain.map cvp), optT st]
      = some (chainV sig sigSelf (chain.map (·.1)) st) := by
  rw [sem_succ, find_ValidateCodeSigningCertChain]
  match chain, hag with
  | [], _ => go_eval [x509_ValidateCodeSigningCertChain, chainV, site, chainFn]
  | [c], hag =>
    obtain ⟨c, ce⟩ := c
    have hc : ExtsAgree c ce := hag (c, ce) (by simp)
    have hST : call[sig, sigSelf] (n + 3) "validateSigningTime" [certV c ce, optT st] = _ :=
      validateSigningTime_eq sig sigSelf .codeSigning (n + 2) c ce st
    have hLeaf := validateCodeSigningLeafCertificate_eq sig sigSelf n c ce hc
    cases h1 : sigSelf c.id
    · go_eval [x509_ValidateCodeSigningCertChain, chainV, cvp, h1, site, chainFn, primErr]
    · by_cases h2 : c.subject = c.issuer
      · cases h3 : validateSigningTime c st with
        | error e =>
          rw [h3] at hST
          go_eval [x509_ValidateCodeSigningCertChain, chainV, cvp, h1, h2, h3, hST, prims]
        | ok u =>
          rw [h3] at hST
          generalize hX : leafChecks .codeSigning c = X at hLeaf
          cases X with
          | ok u2 => go_eval [x509_ValidateCodeSigningCertChain, chainV, cvp, h1, h2, h3, hST, hLeaf, hX, prims]
          | error e => go_eval [x509_ValidateCodeSigningCertChain, chainV, cvp, h1, h2, h3, hST, hLeaf, hX, prims]
      · go_eval [x509_ValidateCodeSigningCertChain, chainV, cvp, h1, h2, site, chainFn]
  | c1 :: c2 :: r, hag =>
    have key := csWalkLoop sig sigSelf n (List.map cvp (c1 :: c2 :: r)) st (c1 :: c2 :: r) [] (by simp) hag
    simp only [csWalkBody, rangeBody, x509_ValidateCodeSigningCertChain, List.getD_cons_succ, List.getD_cons_zero,
      walkStore, List.length_nil] at key
    go_eval_at key []
    have hl1 : ¬ ((r.length : Int) + 1 + 1 < 1) := by omega
    have hl2 : ¬ ((r.length : Int) + 1 + 1 = 1) := by omega
    simp only [chainV]
    generalize hX : loopFrom .codeSigning sig sigSelf st 0 (List.map (fun x => x.1) (c1 :: c2 :: r)) = X at key
    simp only [List.map_cons] at hX
    cases X with
    | ok u => (try simp at key); go_eval [x509_ValidateCodeSigningCertChain, key, hl1, hl2, hX]
    | error e => (try simp at key); go_eval [x509_ValidateCodeSigningCertChain, key, hl1, hl2, hX]

/-- accept / reject: the code, as regenerated, accepts exactly the chains the model accepts -/
theorem ValidateCodeSigningCertChain_accepts_iff (n : Nat) (chain : List CertX)
    (hag : ∀ x ∈ chain, ExtsAgree x.1 x.2) (st : Option Int) :
    call[sig, sigSelf] (n + 4) "ValidateCodeSigningCertChain" [.list (chain.map cvp), optT st] = some .nil
      ↔ validate .codeSigning sig sigSelf (chain.map (·.1)) st = .ok () := by
  rw [ValidateCodeSigningCertChain_eq sig sigSelf n chain hag st]
  simp [chainV_nil_iff]

end
end NotationCore.Tie.Code.X509
