import NotationCore.Model.Jws
/-! inversion lemmas for the JWS read model -/
namespace NotationCore.Proofs.Jws
open NotationCore Base Algorithm Jws

/-- everything that is known when `Jws.content` succeeds -/
theorem content_inv (e : Env) (c : Content) (hv : content e = .val c) :
    ∃ ms h alg, membersOf e.prot = some ms ∧ decodeHdr ms {} = some h ∧ gates1 e ms h = true ∧
      jwsAlgOfName h.alg = some alg ∧ gates2 e = true ∧ c = contentOf e ms h alg := by
  unfold content at hv
  cases hp : membersOf e.prot with
  | none => rw [hp] at hv; cases hv
  | some ms =>
    rw [hp] at hv
    simp only [] at hv
    cases hd : decodeHdr ms {} with
    | none => rw [hd] at hv; cases hv
    | some h =>
      rw [hd] at hv
      simp only [] at hv
      by_cases h1 : gates1 e ms h = true
      · simp only [h1, Bool.not_true, Bool.false_eq_true, if_false] at hv
        cases ha : jwsAlgOfName h.alg with
        | none => rw [ha] at hv; cases hv
        | some alg =>
          rw [ha] at hv
          simp only [] at hv
          by_cases h2 : gates2 e = true
          · simp only [h2, Bool.not_true, Bool.false_eq_true, if_false, Outcome.val.injEq] at hv
            exact ⟨ms, h, alg, rfl, hd, h1, ha, h2, hv.symm⟩
          · simp [h2] at hv
      · simp [h1] at hv

/-- everything that is known when `Jws.verify` succeeds -/
theorem verify_inv (e : Env) (c : Content) (hv : verify e = .val c) :
    (∃ id rest, e.x5c = some id :: rest) ∧ verifyJWT e = true ∧ content e = .val c := by
  unfold verify at hv
  cases hx : e.x5c with
  | nil => rw [hx] at hv; cases hv
  | cons x rest =>
    rw [hx] at hv
    cases x with
    | none => cases hv
    | some id =>
      simp only [] at hv
      by_cases hj : verifyJWT e = true
      · simp only [hj, if_true] at hv
        exact ⟨⟨id, rest, rfl⟩, hj, hv⟩
      · simp [hj] at hv

theorem verifyJWT_inv (e : Env) (h : verifyJWT e = true) :
    e.protDot = false ∧ e.payDot = false ∧ e.sigDot = false ∧
    ∃ ms a, e.prot = .obj ms ∧ jwtAlg ms = some a ∧ Generated.validMethods.contains a = true ∧
      e.claimsOK = true ∧ e.payloadB64ok = true ∧ e.sigB64ok = true ∧ e.sigok.lookup a = some true := by
  unfold verifyJWT at h
  simp only [Bool.and_eq_true, Bool.not_eq_eq_eq_not, Bool.not_true, Bool.or_eq_false_iff] at h
  obtain ⟨⟨⟨h1, h2⟩, h3⟩, h4⟩ := h
  refine ⟨h1, h2, h3, ?_⟩
  cases hp : e.prot with
  | bad => rw [hp] at h4; cases h4
  | jnull => rw [hp] at h4; cases h4
  | obj ms =>
    rw [hp] at h4
    simp only [] at h4
    cases ha : jwtAlg ms with
    | none => rw [ha] at h4; cases h4
    | some a =>
      rw [ha] at h4
      simp only [Bool.and_eq_true] at h4
      obtain ⟨⟨⟨⟨g1, g2⟩, g3⟩, g4⟩, g5⟩ := h4
      refine ⟨ms, a, rfl, ha, g1, g2, g3, g4, ?_⟩
      cases hl : e.sigok.lookup a with
      | none => rw [hl] at g5; cases g5
      | some b => rw [hl] at g5; simp only [] at g5; rw [g5]

/-! ### one decoding step touches only the field its member names -/

theorem step_alg_other (h h' : Hdr) (m : Member) (hk : (m.key == kAlg) = false) (hs : step h m = some h') :
    h'.alg = h.alg := by
  unfold step at hs
  simp only [hk, Bool.false_eq_true, if_false] at hs
  repeat' split at hs
  all_goals first
    | (simp only [Option.map_eq_some_iff] at hs; obtain ⟨_, _, rfl⟩ := hs; rfl)
    | (simp only [Option.some.injEq] at hs; rw [← hs])

theorem step_alg_str (h h' : Hdr) (m : Member) (hk : (m.key == kAlg) = true) (s : String) (t : Option Time)
    (hv : m.val = .str s t) (hs : step h m = some h') : h'.alg = s := by
  unfold step at hs
  simp only [hk, if_true, hv, setString, Option.map_some, Option.some.injEq] at hs
  rw [← hs]

/-- with no `alg` member in the list, decoding preserves `alg` -/
theorem decodeHdr_alg_keep (ms : List Member) (g g' : Hdr)
    (hf : ms.filter (fun m => m.key == kAlg) = []) (hd : decodeHdr ms g = some g') : g'.alg = g.alg := by
  induction ms generalizing g with
  | nil => simp [decodeHdr] at hd; rw [← hd]
  | cons x xs ih =>
    simp only [List.filter_cons] at hf
    by_cases hxk : (x.key == kAlg) = true
    · simp [hxk] at hf
    · have hxk' : (x.key == kAlg) = false := by simpa using hxk
      simp only [hxk', Bool.false_eq_true, if_false] at hf
      simp only [decodeHdr] at hd
      cases hs : step g x with
      | none => rw [hs] at hd; cases hd
      | some g1 =>
        rw [hs] at hd
        simp only [Option.bind_some] at hd
        rw [ih g1 hf hd, step_alg_other g g1 x hxk' hs]

/-- the algorithm golang-jwt verifies with (exact `alg`, last member, a string) is the algorithm
    name the struct decode ends up with -/
theorem decodeHdr_alg (ms : List Member) (h0 h : Hdr) (a : String)
    (hd : decodeHdr ms h0 = some h) (hj : jwtAlg ms = some a) : h.alg = a := by
  induction ms generalizing h0 with
  | nil => simp [jwtAlg] at hj
  | cons m ms ih =>
    simp only [decodeHdr] at hd
    cases hs : step h0 m with
    | none => rw [hs] at hd; cases hd
    | some h1 =>
      rw [hs] at hd
      simp only [Option.bind_some] at hd
      by_cases hlater : (ms.filter (fun m => m.key == kAlg)) = []
      · -- m must be the last alg member
        unfold jwtAlg at hj
        simp only [List.filter_cons] at hj
        by_cases hk : (m.key == kAlg) = true
        · simp only [hk, if_true, hlater, List.getLast?_singleton] at hj
          cases hval : m.val with
          | str s t =>
            rw [hval] at hj
            simp only [Option.some.injEq] at hj
            subst hj
            rw [decodeHdr_alg_keep ms h1 h hlater hd]
            exact step_alg_str h0 h1 m hk s t hval hs
          | null => rw [hval] at hj; cases hj
          | arr es => rw [hval] at hj; cases hj
          | other => rw [hval] at hj; cases hj
        · simp only [hk, Bool.false_eq_true, if_false, hlater, List.getLast?_nil] at hj
          cases hj
      · -- a later alg member exists: jwtAlg of the tail is the same
        have hj' : jwtAlg ms = some a := by
          unfold jwtAlg at hj ⊢
          simp only [List.filter_cons] at hj
          by_cases hk : (m.key == kAlg) = true
          · simp only [hk, if_true] at hj
            cases hfl : ms.filter (fun m => m.key == kAlg) with
            | nil => exact absurd hfl hlater
            | cons y ys => rw [hfl] at hj; rw [List.getLast?_cons_cons] at hj; exact hj
          · simp only [hk, Bool.false_eq_true, if_false] at hj
            exact hj
        exact ih h1 hd hj'

/-! ### where a decoded field comes from -/

theorem step_provenance (h h' : Hdr) (m : Member) (hs : step h m = some h') :
    (h'.scheme ≠ h.scheme → m.key = kScheme) ∧
    (h'.expiry ≠ h.expiry → m.key = kExpiry) ∧
    (h'.authSigningTime ≠ h.authSigningTime → m.key = kAuthSigningTime) ∧
    (h'.signingTime ≠ h.signingTime → m.key = kSigningTime) := by
  unfold step at hs
  split at hs
  · obtain ⟨s, _, rfl⟩ := Option.map_eq_some_iff.mp hs; simp
  · split at hs
    · obtain ⟨s, _, rfl⟩ := Option.map_eq_some_iff.mp hs; simp
    · split at hs
      · rename_i hk
        obtain ⟨s, _, rfl⟩ := Option.map_eq_some_iff.mp hs
        simp; intro _; simpa using hk
      · split at hs
        · obtain ⟨s, _, rfl⟩ := Option.map_eq_some_iff.mp hs; simp
        · split at hs
          · rename_i hk
            obtain ⟨s, _, rfl⟩ := Option.map_eq_some_iff.mp hs
            simp; intro _; simpa using hk
          · split at hs
            · rename_i hk
              obtain ⟨s, _, rfl⟩ := Option.map_eq_some_iff.mp hs
              simp; intro _; simpa using hk
            · split at hs
              · rename_i hk
                obtain ⟨s, _, rfl⟩ := Option.map_eq_some_iff.mp hs
                simp; intro _; simpa using hk
              · simp only [Option.some.injEq] at hs; subst hs; simp

theorem decodeHdr_provenance (ms : List Member) (h0 h : Hdr) (hd : decodeHdr ms h0 = some h) :
    (h.scheme ≠ h0.scheme → kScheme ∈ ms.map (·.key)) ∧
    (h.expiry ≠ h0.expiry → kExpiry ∈ ms.map (·.key)) ∧
    (h.authSigningTime ≠ h0.authSigningTime → kAuthSigningTime ∈ ms.map (·.key)) ∧
    (h.signingTime ≠ h0.signingTime → kSigningTime ∈ ms.map (·.key)) := by
  induction ms generalizing h0 with
  | nil => simp only [decodeHdr, Option.some.injEq] at hd; subst hd; simp
  | cons m ms ih =>
    simp only [decodeHdr] at hd
    cases hs : step h0 m with
    | none => rw [hs] at hd; cases hd
    | some h1 =>
      rw [hs] at hd
      simp only [Option.bind_some] at hd
      obtain ⟨i1, i2, i3, i4⟩ := ih h1 hd
      obtain ⟨s1, s2, s3, s4⟩ := step_provenance h0 h1 m hs
      simp only [List.map_cons, List.mem_cons]
      refine ⟨?_, ?_, ?_, ?_⟩
      · intro hne
        by_cases hx : h.scheme = h1.scheme
        · left; exact (s1 (by rw [← hx]; exact hne)).symm
        · right; exact i1 hx
      · intro hne
        by_cases hx : h.expiry = h1.expiry
        · left; exact (s2 (by rw [← hx]; exact hne)).symm
        · right; exact i2 hx
      · intro hne
        by_cases hx : h.authSigningTime = h1.authSigningTime
        · left; exact (s3 (by rw [← hx]; exact hne)).symm
        · right; exact i3 hx
      · intro hne
        by_cases hx : h.signingTime = h1.signingTime
        · left; exact (s4 (by rw [← hx]; exact hne)).symm
        · right; exact i4 hx

theorem extMembers_go_subset (l : List Member) : ∀ m ∈ extMembers.go l, m ∈ l := by
  induction l with
  | nil => intro m hm; simp [extMembers.go] at hm
  | cons a as ih =>
    intro m hm
    simp only [extMembers.go] at hm
    split at hm
    · exact List.mem_cons_of_mem _ (ih m hm)
    · rcases List.mem_cons.mp hm with rfl | hm
      · simp
      · exact List.mem_cons_of_mem _ (ih m hm)

theorem extMembers_subset (ms : List Member) : ∀ m ∈ extMembers ms, m ∈ ms := by
  intro m hm
  have : m ∈ ms.filter (fun m => !Generated.jwsHeaderKeys.contains m.key) := extMembers_go_subset _ m hm
  exact (List.mem_filter.mp this).1


end NotationCore.Proofs.Jws
