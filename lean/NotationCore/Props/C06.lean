import NotationCore.Props.C11
/-!
  C06 — revocation checking fails closed under every network, server and cache fault.

  Faults are not a special mechanism of the model: `env.ocsp.exchange`, `env.ocsp.urlKind`,
  `env.crl.fetch` are *arbitrary functions* into outcome types whose error constructors are the
  fault classes (transport error, timeout, cancellation, non-200 status, empty / truncated /
  oversized / garbage body, OCSP error status, unsupported scheme, cache failure → `.err _` /
  `.fail`).  A theorem for all environments therefore covers every assignment of faults.
-/
namespace NotationCore.Props
open NotationCore Revocation

/-- some source actually delivered authentic evidence of good standing (C04's and C05's notions) -/
def Evidence (env : Env) (c : Cert) (st : Time) : Prop :=
  (∃ u ∈ c.ocsp, OcspEvidence env.ocsp st u) ∨
  (c.crlDPs ≠ [] ∧ ∀ u ∈ c.crlDPs, DPGood env.crl c.toCrl st u)

/-- **C06 (fail closed)**: a certificate that names a revocation source comes out OK only on
    authentic evidence of good standing -/
theorem C06_fail_closed (env : Env) (c : Cert) (st : Time)
    (h : (certCheck env c st).result = .ok) : Evidence env c st := by
  have T := C11_decision_table env c st
  simp only [] at T
  obtain ⟨t1, t2, t3, t4, t5⟩ := T
  by_cases ho : c.ocsp = []
  · by_cases hk : c.crlDPs = []
    · rw [t5 ho hk] at h; cases h
    · rw [t4 ho hk] at h
      right; exact (C05_ok_iff env.crl c.toCrl st).mp h
  · rcases ocsp_result_cases env.ocsp c.ocsp st ho with hr | hr | hr
    · left
      obtain ⟨pre, u, post, h1, h2, _⟩ := C04_ok env.ocsp c.ocsp st hr
      exact ⟨u, by rw [h1]; simp, h2⟩
    · rw [t1 ho (Or.inr hr), hr] at h; cases h
    · by_cases hk : c.crlDPs = []
      · rw [t3 ho hr hk, hr] at h; cases h
      · rw [(t2 ho hr hk).1] at h
        right; exact (C05_ok_iff env.crl c.toCrl st).mp h

/-- **C06**: a certificate naming a source is never NonRevokable -/
theorem C06_never_nonrevokable (env : Env) (c : Cert) (st : Time)
    (hsrc : c.ocsp ≠ [] ∨ c.crlDPs ≠ []) : (certCheck env c st).result ≠ .nonRevokable := by
  have T := C11_decision_table env c st
  simp only [] at T
  obtain ⟨t1, t2, t3, t4, _⟩ := T
  have crlCases : c.crlDPs ≠ [] → (Crl.certCheckStatus env.crl c.toCrl st).result ≠ .nonRevokable := by
    intro hk
    have := (C05_shape env.crl c.toCrl st hk).2
    rcases this with ⟨h, _⟩ | ⟨h | h, _⟩ <;> rw [h] <;> simp
  by_cases ho : c.ocsp = []
  · have hk : c.crlDPs ≠ [] := by rcases hsrc with h | h; exact absurd ho h; exact h
    rw [t4 ho hk]; exact crlCases hk
  · rcases ocsp_result_cases env.ocsp c.ocsp st ho with hr | hr | hr
    · rw [t1 ho (Or.inl hr), hr]; simp
    · rw [t1 ho (Or.inr hr), hr]; simp
    · by_cases hk : c.crlDPs = []
      · rw [t3 ho hr hk, hr]; simp
      · rw [(t2 ho hr hk).1]; exact crlCases hk

/-- **C06**: Revoked only when authentic evidence of revocation was delivered -/
theorem C06_revoked_needs_evidence (env : Env) (c : Cert) (st : Time)
    (h : (certCheck env c st).result = .revoked) :
    (∃ u ∈ c.ocsp, OcspRevokes env.ocsp st u) ∨ (∃ u ∈ c.crlDPs, DPRevokes env.crl c.toCrl st u) := by
  have T := C11_decision_table env c st
  simp only [] at T
  obtain ⟨t1, t2, t3, t4, t5⟩ := T
  have crlCase : c.crlDPs ≠ [] → (Crl.certCheckStatus env.crl c.toCrl st).result = .revoked →
      ∃ u ∈ c.crlDPs, DPRevokes env.crl c.toCrl st u := by
    intro hk hr
    by_cases hall : ∀ u ∈ c.crlDPs, DPGood env.crl c.toCrl st u
    · have := (C05_ok_iff env.crl c.toCrl st).mpr ⟨hk, hall⟩
      rw [hr] at this; cases this
    · have hbad : ∃ u ∈ c.crlDPs, ¬ DPGood env.crl c.toCrl st u := by
        simpa using hall
      rcases C05_fail_closed env.crl c.toCrl st hk hbad with h' | ⟨_, pre, u, post, h1, _, h3⟩
      · rw [hr] at h'; cases h'
      · exact ⟨u, by show u ∈ c.toCrl.crlDPs; rw [h1]; simp, h3⟩
  by_cases ho : c.ocsp = []
  · by_cases hk : c.crlDPs = []
    · rw [t5 ho hk] at h; cases h
    · rw [t4 ho hk] at h; right; exact crlCase hk h
  · rcases ocsp_result_cases env.ocsp c.ocsp st ho with hr | hr | hr
    · rw [t1 ho (Or.inl hr), hr] at h; cases h
    · left
      obtain ⟨pre, u, post, h1, h2, _⟩ := (C04_revoked_iff env.ocsp c.ocsp st).mp hr
      exact ⟨u, by rw [h1]; simp, h2⟩
    · by_cases hk : c.crlDPs = []
      · rw [t3 ho hr hk, hr] at h; cases h
      · rw [(t2 ho hr hk).1] at h; right; exact crlCase hk h

/-- **C06 (standalone OCSP entry point)**: with a responder named, never NonRevokable and OK only
    on OCSP evidence -/
theorem C06_ocsp_entry (env : Env) (c : Cert) (st : Time) (hne : c.ocsp ≠ []) :
    (certCheckOcspOnly env c st).result ≠ .nonRevokable ∧
    ((certCheckOcspOnly env c st).result = .ok → ∃ u ∈ c.ocsp, OcspEvidence env.ocsp st u) := by
  unfold certCheckOcspOnly
  constructor
  · rcases ocsp_result_cases env.ocsp c.ocsp st hne with h | h | h <;> rw [h] <;> simp
  · intro h
    obtain ⟨pre, u, post, h1, h2, _⟩ := C04_ok env.ocsp c.ocsp st h
    exact ⟨u, by rw [h1]; simp, h2⟩

/-! #### isolation: a certificate's result depends on the environment only through its own URLs -/

theorem ocsp_server_congr (e e' : Ocsp.Env) (st : Time) (u : Url)
    (h1 : e.urlKind u = e'.urlKind u) (h2 : e.exchange u = e'.exchange u) (h3 : e.now = e'.now) :
    Ocsp.checkStatusFromServer e st u = Ocsp.checkStatusFromServer e' st u := by
  unfold Ocsp.checkStatusFromServer; rw [h1, h2, h3]

theorem ocsp_loop_congr (e e' : Ocsp.Env) (st : Time) (us : List Url) (acc : List ServerResult)
    (h : ∀ u ∈ us, e.urlKind u = e'.urlKind u ∧ e.exchange u = e'.exchange u) (h3 : e.now = e'.now) :
    Ocsp.serverLoop e st us acc = Ocsp.serverLoop e' st us acc := by
  induction us generalizing acc with
  | nil => rfl
  | cons u us ih =>
    simp only [Ocsp.serverLoop]
    rw [ocsp_server_congr e e' st u (h u (by simp)).1 (h u (by simp)).2 h3]
    split
    · rfl
    · exact ih _ (fun v hv => h v (List.mem_cons_of_mem _ hv))

theorem crl_loop_congr (e e' : Crl.Env) (c : Crl.RCert) (st : Time) (us : List Url) (acc : List ServerResult)
    (h : ∀ u ∈ us, e.fetch u = e'.fetch u) (h3 : e.now = e'.now) :
    Crl.loop e c st us acc = Crl.loop e' c st us acc := by
  induction us generalizing acc with
  | nil => rfl
  | cons u us ih =>
    simp only [Crl.loop]
    have : Crl.checkDP e c st u = Crl.checkDP e' c st u := by
      unfold Crl.checkDP; rw [h u (by simp), h3]
    rw [this]
    split
    · rfl
    · rfl
    · exact ih _ (fun v hv => h v (List.mem_cons_of_mem _ hv))

/-- **C06 (isolation)**: two environments that agree on this certificate's own responder and
    distribution-point URLs (and on the clock) give this certificate the same result — whatever
    faults they inject anywhere else -/
theorem C06_isolation (env env' : Env) (c : Cert) (st : Time)
    (ho : ∀ u ∈ c.ocsp, env.ocsp.urlKind u = env'.ocsp.urlKind u ∧ env.ocsp.exchange u = env'.ocsp.exchange u)
    (hk : ∀ u ∈ c.crlDPs, env.crl.fetch u = env'.crl.fetch u)
    (hn1 : env.ocsp.now = env'.ocsp.now) (hn2 : env.crl.now = env'.crl.now) :
    certCheck env c st = certCheck env' c st := by
  have e1 : Ocsp.certCheckStatus env.ocsp c.ocsp st = Ocsp.certCheckStatus env'.ocsp c.ocsp st := by
    unfold Ocsp.certCheckStatus
    split
    · rfl
    · exact ocsp_loop_congr _ _ _ _ _ ho hn1
  have e2 : Crl.certCheckStatus env.crl c.toCrl st = Crl.certCheckStatus env'.crl c.toCrl st := by
    unfold Crl.certCheckStatus
    split
    · rfl
    · exact crl_loop_congr _ _ _ _ _ _ hk hn2
  unfold certCheck
  rw [e1, e2]

/-- in a chain, the result at position `k` is the check of that certificate in its own
    environment: changing another certificate's environment cannot change it -/
theorem C06_positions_independent (cs cs' : List (Env × Cert)) (st : Time) (k : Nat)
    (hk : k < cs.length) (hk' : k < cs'.length) (h : cs[k] = cs'[k]) :
    (results certCheck cs st)[k]'(by simp [results]; omega) = (results certCheck cs' st)[k]'(by simp [results]; omega) := by
  unfold results
  rw [List.getElem_append_left (by simpa using hk), List.getElem_append_left (by simpa using hk')]
  simp [h]

end NotationCore.Props
