import NotationCore.Tie.Code.Base
/-!
  Tie by translation, the wrapper's re-validation of envelope content
  (`signature/internal/base/envelope.go`): `validatePayload`, `getSignatureAlgorithm`,
  `validateCertificateChain`, `validateSignerInfo`, `validateEnvelopeContent`, as regenerated
  syntax trees, accept exactly when the model's `Base.validateEnvelopeContent` does — non-empty
  payload and signature, an algorithm, signing / expiry times, a scheme, a non-empty chain that
  `x509.ValidateCodeSigningCertChain` accepts (a cross-package call: the primitive `chainOK`,
  whose own tie is `C03_code`) and whose leaf key dictates the declared algorithm.
-/
namespace NotationCore.Tie.Code.Base
open NotationCore GoSem Generated.Ast

def primErr : Val := .err "·prim" 0 []

/-- cross-package calls: the chain verdict and the algorithm of the leaf key -/
def cprims (chainOK : Bool) (leafAlg : Option Nat) : Prims := fun name args =>
  match name, args with
  | "x509.ValidateCodeSigningCertChain", [_, _] => some (if chainOK then .nil else primErr)
  | "signature.ExtractKeySpec", [_] => some (match leafAlg with
      | some _ => .tuple [.opaque 1, .nil]
      | none => .tuple [.opaque 1, primErr])
  | "SignatureAlgorithm", [_] => some (match leafAlg with
      | some a => .int a
      | none => .int 0)
  | _, _ => none

def cfuncs : List Func := [base_validatePayload, base_validateSignerInfo, base_validateCertificateChain, base_getSignatureAlgorithm,
  base_validateEnvelopeContent, base_validateSigningAndExpiryTime, base_validateSigningSchema, base_validateSignRequest]

theorem cfind_validatePayload : cfuncs.find? (fun f => f.name == "validatePayload") = some base_validatePayload := rfl
theorem cfind_validateSignerInfo : cfuncs.find? (fun f => f.name == "validateSignerInfo") = some base_validateSignerInfo := rfl
theorem cfind_validateCertificateChain : cfuncs.find? (fun f => f.name == "validateCertificateChain") = some base_validateCertificateChain := rfl
theorem cfind_getSignatureAlgorithm : cfuncs.find? (fun f => f.name == "getSignatureAlgorithm") = some base_getSignatureAlgorithm := rfl
theorem cfind_validateEnvelopeContent : cfuncs.find? (fun f => f.name == "validateEnvelopeContent") = some base_validateEnvelopeContent := rfl
theorem cfind_validateSigningAndExpiryTime : cfuncs.find? (fun f => f.name == "validateSigningAndExpiryTime") = some base_validateSigningAndExpiryTime := rfl
theorem cfind_validateSignRequest : cfuncs.find? (fun f => f.name == "validateSignRequest") = some base_validateSignRequest := rfl
theorem cfind_validateSigningSchema : cfuncs.find? (fun f => f.name == "validateSigningSchema") = some base_validateSigningSchema := rfl

macro "base_eval" "[" ts:Lean.Parser.Tactic.simpLemma,* "]" : tactic =>
  `(tactic| simp [run, pack, execBlock, exec, eval, evalArgs, sbindAll, sbind, sdefine, sassign, fset, sget, fget,
      spop, binop, builtin, field, cprims, Int.natCast_inj, $ts,*])

section
variable (chainOK : Bool) (leafAlg : Option Nat)
local notation "csem" => sem (cprims chainOK leafAlg) cfuncs

def payloadV (len : Nat) : Val := .obj [("Content", .list (List.replicate len (.opaque 0)))]

theorem validatePayload_eq (n len : Nat) :
    csem (n + 1) "validatePayload" [payloadV len] = some (if len = 0 then .err "validatePayload" 0 [] else .nil) := by
  rw [sem_succ, cfind_validatePayload]
  cases len with
  | zero => base_eval [base_validatePayload, payloadV]
  | succ p =>
    have hp : ¬ ((p : Int) + 1 = 0) := by omega
    base_eval [base_validatePayload, payloadV, hp]

/-- the times / scheme checks inside this package's function table (same trees as in `Base.lean`) -/
theorem times_eq (n : Nat) (st ex : Int) :
    csem (n + 1) "validateSigningAndExpiryTime" [.int st, .int ex]
      = some (if NotationCore.Base.validateSigningAndExpiryTime st ex then .nil
              else if isZeroT st then .err "validateSigningAndExpiryTime" 0 []
              else .err "validateSigningAndExpiryTime" 1 []) := by
  rw [sem_succ, cfind_validateSigningAndExpiryTime]
  by_cases h1 : st = -62135596800000000000 <;> by_cases h2 : ex = -62135596800000000000 <;>
    by_cases h3 : ex < st <;> by_cases h4 : ex = st <;>
    base_eval [base_validateSigningAndExpiryTime, NotationCore.Base.validateSigningAndExpiryTime, isZeroT, zeroT, h1, h2, h3, h4] <;> omega

theorem scheme_eq (n : Nat) (s : String) :
    csem (n + 1) "validateSigningSchema" [.str s] = some (if s = "" then .err "validateSigningSchema" 0 [] else .nil) := by
  rw [sem_succ, cfind_validateSigningSchema]
  by_cases h : s = "" <;> base_eval [base_validateSigningSchema, h]

theorem getSignatureAlgorithm_eq (n : Nat) (leaf : Val) :
    csem (n + 1) "getSignatureAlgorithm" [leaf]
      = some (match leafAlg with
          | some a => .tuple [.int a, .nil]
          | none => .tuple [.int 0, primErr]) := by
  rw [sem_succ, cfind_getSignatureAlgorithm]
  cases leafAlg <;> base_eval [base_getSignatureAlgorithm, primErr]

/-- the model's verdict on the chain part -/
def chainAccepts (alg : Nat) (chain : List Val) : Bool :=
  !chain.isEmpty && chainOK && (match leafAlg with | some a => a == alg | none => false)

theorem validateCertificateChain_nil_iff (n : Nat) (chain : List Val) (stv : Val) (alg : Nat) :
    csem (n + 2) "validateCertificateChain" [.list chain, stv, .int alg] = some .nil
      ↔ chainAccepts chainOK leafAlg alg chain = true := by
  rw [sem_succ, cfind_validateCertificateChain]
  unfold chainAccepts
  cases chain with
  | nil => base_eval [base_validateCertificateChain]
  | cons c r =>
    have hl : ¬ ((r.length : Int) + 1 = 0) := by omega
    have hg := getSignatureAlgorithm_eq chainOK leafAlg n c
    cases chainOK
    · base_eval [base_validateCertificateChain, hl, primErr]
    · cases leafAlg with
      | none => simp at hg; base_eval [base_validateCertificateChain, hl, hg, primErr]
      | some a =>
        simp at hg
        by_cases h : a = alg
        · subst h; base_eval [base_validateCertificateChain, hl, hg]
        · base_eval [base_validateCertificateChain, hl, hg, h]

/-- some value is always returned (no stuck state), needed to compose -/
theorem validateCertificateChain_total (n : Nat) (chain : List Val) (stv : Val) (alg : Nat) :
    ∃ v, csem (n + 2) "validateCertificateChain" [.list chain, stv, .int alg] = some v ∧ (v = .nil ∨ ∃ k w, v = .err "validateCertificateChain" k w) := by
  rw [sem_succ, cfind_validateCertificateChain]
  cases chain with
  | nil => base_eval [base_validateCertificateChain]
  | cons c r =>
    have hl : ¬ ((r.length : Int) + 1 = 0) := by omega
    have hg := getSignatureAlgorithm_eq chainOK leafAlg n c
    cases chainOK
    · base_eval [base_validateCertificateChain, hl, primErr]
    · cases leafAlg with
      | none => simp at hg; base_eval [base_validateCertificateChain, hl, hg, primErr]
      | some a =>
        simp at hg
        by_cases h : a = alg
        · subst h; base_eval [base_validateCertificateChain, hl, hg]
        · base_eval [base_validateCertificateChain, hl, hg, h]

def signerInfoV (sigLen alg : Nat) (st ex : Int) (scheme : String) (chain : List Val) : Val :=
  .obj [("Signature", .list (List.replicate sigLen (.opaque 0))), ("SignatureAlgorithm", .int alg),
    ("SignedAttributes", .obj [("SigningTime", .int st), ("Expiry", .int ex), ("SigningScheme", .str scheme)]),
    ("CertificateChain", .list chain)]

theorem validateSignerInfo_nil_iff (n : Nat) (sigLen alg : Nat) (st ex : Int) (scheme : String) (chain : List Val) :
    csem (n + 3) "validateSignerInfo" [signerInfoV sigLen alg st ex scheme chain] = some .nil
      ↔ (sigLen != 0 && alg != 0 && NotationCore.Base.validateSigningAndExpiryTime st ex && scheme != "" &&
          chainAccepts chainOK leafAlg alg chain) = true := by
  rw [sem_succ, cfind_validateSignerInfo]
  have ht : csem (n + 2) "validateSigningAndExpiryTime" [.int st, .int ex] = _ := times_eq chainOK leafAlg (n + 1) st ex
  have hs : csem (n + 2) "validateSigningSchema" [.str scheme] = _ := scheme_eq chainOK leafAlg (n + 1) scheme
  obtain ⟨v, hv, hform⟩ := validateCertificateChain_total chainOK leafAlg n chain .nil alg
  have hiff := validateCertificateChain_nil_iff chainOK leafAlg n chain .nil alg
  rw [hv] at hiff
  cases sigLen with
  | zero => base_eval [base_validateSignerInfo, signerInfoV]
  | succ s =>
    have hs0 : ¬ ((s : Int) + 1 = 0) := by omega
    cases alg with
    | zero => base_eval [base_validateSignerInfo, signerInfoV, hs0]
    | succ a =>
      have ha0 : ¬ ((a : Int) + 1 = 0) := by omega
      cases hT : NotationCore.Base.validateSigningAndExpiryTime st ex
      · rw [hT] at ht
        by_cases hz : isZeroT st = true <;> simp [hz] at ht <;>
          base_eval [base_validateSignerInfo, signerInfoV, hs0, ha0, ht]
      · rw [hT] at ht
        simp at ht
        by_cases hsc : scheme = ""
        · simp [hsc] at hs
          base_eval [base_validateSignerInfo, signerInfoV, hs0, ha0, ht, hs, hsc]
        · simp [hsc] at hs
          push_cast at hv
          rcases hform with hnil | ⟨k, w, herr⟩
          · subst hnil
            simp at hiff
            base_eval [base_validateSignerInfo, signerInfoV, hs0, ha0, ht, hs, hsc, hv, hiff]
          · subst herr
            simp at hiff
            base_eval [base_validateSignerInfo, signerInfoV, hs0, ha0, ht, hs, hsc, hv, hiff]

theorem validateSignerInfo_total (n : Nat) (sigLen alg : Nat) (st ex : Int) (scheme : String) (chain : List Val) :
    ∃ v, csem (n + 3) "validateSignerInfo" [signerInfoV sigLen alg st ex scheme chain] = some v ∧
      (v = .nil ∨ ∃ f k w, v = .err f k w) := by
  rw [sem_succ, cfind_validateSignerInfo]
  have ht : csem (n + 2) "validateSigningAndExpiryTime" [.int st, .int ex] = _ := times_eq chainOK leafAlg (n + 1) st ex
  have hs : csem (n + 2) "validateSigningSchema" [.str scheme] = _ := scheme_eq chainOK leafAlg (n + 1) scheme
  obtain ⟨v, hv, hform⟩ := validateCertificateChain_total chainOK leafAlg n chain .nil alg
  cases sigLen with
  | zero => base_eval [base_validateSignerInfo, signerInfoV]
  | succ s =>
    have hs0 : ¬ ((s : Int) + 1 = 0) := by omega
    cases alg with
    | zero => base_eval [base_validateSignerInfo, signerInfoV, hs0]
    | succ a =>
      have ha0 : ¬ ((a : Int) + 1 = 0) := by omega
      cases hT : NotationCore.Base.validateSigningAndExpiryTime st ex
      · rw [hT] at ht
        by_cases hz : isZeroT st = true <;> simp [hz] at ht <;>
          base_eval [base_validateSignerInfo, signerInfoV, hs0, ha0, ht]
      · rw [hT] at ht
        simp at ht
        by_cases hsc : scheme = ""
        · simp [hsc] at hs
          base_eval [base_validateSignerInfo, signerInfoV, hs0, ha0, ht, hs, hsc]
        · simp [hsc] at hs
          push_cast at hv
          rcases hform with hnil | ⟨k, w, herr⟩
          · subst hnil
            base_eval [base_validateSignerInfo, signerInfoV, hs0, ha0, ht, hs, hsc, hv]
          · subst herr
            base_eval [base_validateSignerInfo, signerInfoV, hs0, ha0, ht, hs, hsc, hv]

/-- `*signature.EnvelopeContent` as the wrapper reads it -/
def contentV (payloadLen sigLen alg : Nat) (st ex : Int) (scheme : String) (chain : List Val) : Val :=
  .obj [("Payload", payloadV payloadLen), ("SignerInfo", signerInfoV sigLen alg st ex scheme chain)]

/-- **`validateEnvelopeContent(content)`, as regenerated, returns a nil error exactly when the
    model's `Base.validateEnvelopeContent` holds** (payload, signature, algorithm, times, scheme,
    chain accepted by `x509.ValidateCodeSigningCertChain`, leaf key dictating the algorithm). -/
theorem validateEnvelopeContent_nil_iff (n : Nat) (payloadLen sigLen alg : Nat) (st ex : Int) (scheme : String)
    (chain : List Val) :
    csem (n + 4) "validateEnvelopeContent" [contentV payloadLen sigLen alg st ex scheme chain] = some .nil
      ↔ (payloadLen != 0 && sigLen != 0 && alg != 0 && NotationCore.Base.validateSigningAndExpiryTime st ex && scheme != "" &&
          chainAccepts chainOK leafAlg alg chain) = true := by
  rw [sem_succ, cfind_validateEnvelopeContent]
  have hp : csem (n + 3) "validatePayload" [payloadV payloadLen] = _ := validatePayload_eq chainOK leafAlg (n + 2) payloadLen
  obtain ⟨v, hv, hform⟩ := validateSignerInfo_total chainOK leafAlg n sigLen alg st ex scheme chain
  have hiff := validateSignerInfo_nil_iff chainOK leafAlg n sigLen alg st ex scheme chain
  rw [hv] at hiff
  cases payloadLen with
  | zero => simp at hp; base_eval [base_validateEnvelopeContent, contentV, hp]
  | succ p =>
    simp at hp
    rcases hform with hnil | ⟨f, k, w, herr⟩
    · subst hnil
      simp at hiff
      base_eval [base_validateEnvelopeContent, contentV, hp, hv, hiff]
    · subst herr
      simp at hiff
      base_eval [base_validateEnvelopeContent, contentV, hp, hv]
      exact hiff

end

/-- … stated against the model record: with the two cross-package answers read off the model's
    chain information, the regenerated `validateEnvelopeContent` accepts exactly when
    `Base.validateEnvelopeContent` does -/
theorem validateEnvelopeContent_model (n : Nat) (ci : NotationCore.Base.ChainInfo) (c : NotationCore.Base.Content)
    (chain : List Val) (hlen : chain.isEmpty = ci.certs.isEmpty) :
    sem (cprims (Chain.accepted (Chain.validateCodeSigning ci.sigF ci.sigSelfF ci.certs none))
          (match ci.certs with | leaf :: _ => Algorithm.keyAlg leaf.key | [] => none)) cfuncs (n + 4)
        "validateEnvelopeContent" [contentV c.payloadLen c.sigLen c.alg c.signingTime c.expiry c.scheme chain] = some .nil
      ↔ NotationCore.Base.validateEnvelopeContent ci c = true := by
  rw [validateEnvelopeContent_nil_iff]
  unfold NotationCore.Base.validateEnvelopeContent NotationCore.Base.validateCertificateChain chainAccepts
  rw [hlen]
  cases hcs : ci.certs with
  | nil => simp
  | cons leaf r =>
    simp
    intros
    rfl

section
variable (chainOK : Bool) (leafAlg : Option Nat)
/-! ### `validateSignRequest` (the early refusals of `Sign`) -/

/-- a signer whose `KeySpec()` succeeds or fails -/
def signerV (keySpecOK : Bool) : Val := .obj [("keySpecOK", .bool keySpecOK)]

def rprims : Prims := fun name args =>
  match name, args with
  | "KeySpec", [s] => (match field s "keySpecOK" with
      | some (.bool true) => some (.tuple [.opaque 1, .nil])
      | some (.bool false) => some (.tuple [.opaque 1, primErr])
      | _ => none)
  | _, _ => none

def requestV (payloadLen : Nat) (st ex : Int) (signer : Option Bool) (scheme : String) : Val :=
  .obj [("Payload", payloadV payloadLen), ("SigningTime", .int st), ("Expiry", .int ex),
    ("Signer", match signer with | none => .nil | some ok => signerV ok), ("SigningScheme", .str scheme)]

local notation "rsem" => sem rprims cfuncs

theorem r_validatePayload (n len : Nat) :
    rsem (n + 1) "validatePayload" [payloadV len] = some (if len = 0 then .err "validatePayload" 0 [] else .nil) := by
  rw [sem_succ, cfind_validatePayload]
  cases len with
  | zero => simp [base_validatePayload, payloadV, run, pack, execBlock, exec, eval, evalArgs, sbindAll, sbind, sdefine, fset, sget, fget, spop, binop, builtin, field]
  | succ p =>
    have hp : ¬ ((p : Int) + 1 = 0) := by omega
    simp [base_validatePayload, payloadV, run, pack, execBlock, exec, eval, evalArgs, sbindAll, sbind, sdefine, fset, sget, fget, spop, binop, builtin, field, hp]

theorem r_times (n : Nat) (st ex : Int) :
    rsem (n + 1) "validateSigningAndExpiryTime" [.int st, .int ex]
      = some (if NotationCore.Base.validateSigningAndExpiryTime st ex then .nil
              else if isZeroT st then .err "validateSigningAndExpiryTime" 0 []
              else .err "validateSigningAndExpiryTime" 1 []) := by
  rw [sem_succ, cfind_validateSigningAndExpiryTime]
  by_cases h1 : st = -62135596800000000000 <;> by_cases h2 : ex = -62135596800000000000 <;>
    by_cases h3 : ex < st <;> by_cases h4 : ex = st <;>
    simp [base_validateSigningAndExpiryTime, NotationCore.Base.validateSigningAndExpiryTime, isZeroT, zeroT, run, pack, execBlock, exec, eval,
      evalArgs, sbindAll, sbind, sdefine, fset, sget, fget, spop, binop, builtin, rprims, h1, h2, h3, h4] <;> omega

theorem r_scheme (n : Nat) (s : String) :
    rsem (n + 1) "validateSigningSchema" [.str s] = some (if s = "" then .err "validateSigningSchema" 0 [] else .nil) := by
  rw [sem_succ, cfind_validateSigningSchema]
  by_cases h : s = "" <;>
    simp [base_validateSigningSchema, run, pack, execBlock, exec, eval, evalArgs, sbindAll, sbind, sdefine, fset, sget, fget, spop, binop, builtin, h]

/-- **`validateSignRequest(req)` returns a nil error exactly on a request with a non-empty payload,
    a signing time that is set and an expiry (if any) strictly after it, a signer whose `KeySpec()`
    succeeds, and a signing scheme** — the early refusals of C16 -/
theorem validateSignRequest_nil_iff (n : Nat) (payloadLen : Nat) (st ex : Int) (signer : Option Bool) (scheme : String) :
    rsem (n + 2) "validateSignRequest" [requestV payloadLen st ex signer scheme] = some .nil
      ↔ (payloadLen != 0 && NotationCore.Base.validateSigningAndExpiryTime st ex && (signer == some true) && scheme != "") = true := by
  rw [sem_succ, cfind_validateSignRequest]
  have hp := r_validatePayload n payloadLen
  have ht := r_times n st ex
  have hs := r_scheme n scheme
  cases payloadLen with
  | zero =>
    simp at hp
    simp [base_validateSignRequest, requestV, run, pack, execBlock, exec, eval, evalArgs, sbindAll, sbind, sdefine, fset, sget, fget,
      spop, binop, builtin, field, rprims, hp]
  | succ p =>
    simp at hp
    cases hT : NotationCore.Base.validateSigningAndExpiryTime st ex
    · rw [hT] at ht
      by_cases hz : isZeroT st = true <;> simp [hz] at ht <;>
        simp [base_validateSignRequest, requestV, run, pack, execBlock, exec, eval, evalArgs, sbindAll, sbind, sdefine, fset, sget, fget,
          spop, binop, builtin, field, rprims, hp, ht]
    · rw [hT] at ht
      simp at ht
      cases signer with
      | none =>
        simp [base_validateSignRequest, requestV, run, pack, execBlock, exec, eval, evalArgs, sbindAll, sbind, sdefine, fset, sget, fget,
          spop, binop, builtin, field, rprims, hp, ht]
      | some ok =>
        by_cases hsc : scheme = "" <;> simp [hsc] at hs <;> cases ok <;>
          simp [base_validateSignRequest, requestV, signerV, run, pack, execBlock, exec, eval, evalArgs, sbindAll, sbind, sdefine, fset, sget,
            fget, spop, binop, builtin, field, rprims, primErr, hp, ht, hs, hsc]

end
end NotationCore.Tie.Code.Base
