import DriverLib.Json
import DriverLib.Envelope
import NotationCore.Model.Fetcher
/-! driver handler: the CRL fetcher (C18) -/
namespace DriverLib
open Lean NotationCore NotationCore.Fetcher

def gnameOf (j : Json) : E GName :=
  match j with
  | .str _ => pure .other
  | _ => do pure (.uri (← fldStr j "uri"))

def dpOf (j : Json) : E DP :=
  match j with
  | .str "noName" => pure .noName
  | .str "relativeName" => pure .relativeName
  | .str _ => pure .malformed
  | _ => do pure (.fullName (← fldList j "fullName" gnameOf))

def freshOf (j : Json) : E FreshExt :=
  match j with
  | .str "absent" => pure .absent
  | .str _ => pure .notSequence
  | _ => do pure (.points (← fldList j "points" dpOf))

def crlOf (j : Json) : E Crl := do
  pure { id := ← fldNat j "id", nextUpdate := ← fldTime j "nextUpdate", fresh := ← freshOf (← fld j "fresh") }

def fbundleOf (j : Json) : E Fetcher.Bundle := do
  let delta ← match fldOpt j "delta" with
    | none => pure none
    | some d => do pure (some (← crlOf d))
  pure { base := ← crlOf (← fld j "base"), delta }

def ansOf (j : Json) : E ServerAns :=
  match j with
  | .str "notPlainHttp" => pure .notPlainHttp
  | .str _ => pure .fails
  | _ => do pure (.crl (← crlOf (← fld j "crl")))

def pairOf {α} (f : Json → E α) (j : Json) : E (String × α) := do
  let a ← j.getArr?
  if h : a.size = 2 then pure (← a[0].getStr?, ← f a[1]) else throw "pair expected"

def worldOf (j : Json) : E World := do
  pure { server := ← fldList j "server" (pairOf ansOf), cache := ← fldList j "cache" (pairOf fbundleOf),
         getFault := ← fldBool j "getFault", setFault := ← fldBool j "setFault", now := ← fldTime j "now" }

def crlIdJson (c : Crl) : Json := jnat c.id
def bundleIdJson (b : Fetcher.Bundle) : Json :=
  jobj [("base", crlIdJson b.base), ("delta", match b.delta with | none => Json.null | some d => crlIdJson d)]

def errStr : Fetcher.Err → String
  | .emptyUrl => "emptyUrl" | .cacheGet => "cacheGet" | .download => "download" | .cacheSet => "cacheSet"

def insertStr (a : String × Json) : List (String × Json) → List (String × Json)
  | [] => [a]
  | b :: bs => if a.1 < b.1 then a :: b :: bs else b :: insertStr a bs

def cacheJson (w : World) : Json :=
  jobj ((w.cache.map (fun e => (e.1, bundleIdJson e.2))).foldr insertStr [])

/-- C18 evaluated on what the implementation did, from the observed world before the fetch -/
def monitorFetch (cfg : Config) (w : World) (u : Url) (impl : Json) : E (Option String) := do
  if (fldOpt impl "panic").isSome then return some "panic"
  let (w', o) := fetch cfg w u
  let iok ← fldBool impl "ok"
  let contacts ← strList impl "contacts"
  -- downloads go over plain http only
  if contacts.any (fun c => serverAns w c == .notPlainHttp) then return some "location_that_is_not_plain_http_contacted"
  match o.result with
  | .ok (b, src) =>
    if !iok then
      return some (if src == .cached then "fresh_cached_bundle_not_served" else "cache_miss_or_discarded_cache_error_reported_as_an_error")
    let ib ← fld impl "bundle"
    let ibase ← fldNat ib "base"
    let idelta := match fldOpt ib "delta" with | none => none | some d => d.getNat?.toOption
    if src == .cached then
      if !contacts.isEmpty then return none     -- it downloaded although it could have served the cache: slower, not unsafe; the disagreement reports it
      if ibase != b.base.id || idelta != b.delta.map (·.id) then return some "returned_bundle_is_not_the_cached_one"
      return none
    -- the model downloads
    if contacts.isEmpty then
      -- served from the cache although the entry is stale or absent
      return some "expired_or_next-update-less_cached_bundle_returned"
    if ibase != b.base.id then return some "base_is_not_the_server's_current_crl"
    match b.delta, idelta with
    | none, some _ => return some "delta_present_though_the_base_advertises_no_location"
    | some _, none => return some "delta_missing_though_the_base_advertises_a_location"
    | some d, some i => if d.id != i then return some "delta_not_from_the_first_advertised_location_that_answers"
    | none, none => pure ()
    if (← fld impl "cache_after").compress != (cacheJson w').compress then
      return some (if cfg.hasCache && !w.setFault then "downloaded_bundle_not_written_to_the_cache" else "cache_changed_unexpectedly")
    return none
  | .error e =>
    if iok then
      return some (match e with
        | .download => "failed_or_unparsable_download_hidden"
        | .cacheGet => "cache_read_failure_hidden"
        | .cacheSet => "cache_write_failure_hidden"
        | .emptyUrl => "empty_url_accepted")
    if e == .cacheGet && !contacts.isEmpty then return some "downloaded_despite_cache_read_failure"
    return none

/-- in: {cfg:{hasCache, discard}, world, url}; out: {ok, bundle | err, contacts, gets, sets, cache_after} -/
def handleFetch (j impl : Json) : E Json := do
  let c ← fld j "cfg"
  let cfg : Config := { hasCache := ← fldBool c "hasCache", discardCacheError := ← fldBool c "discard" }
  let w ← worldOf (← fld j "world")
  let u ← fldStr j "url"
  let verdict ← monitorFetch cfg w u impl
  let (w', o) := fetch cfg w u
  let common := [("contacts", jarr (o.contacts.map jstr)), ("gets", jnat o.cacheGets), ("sets", jnat o.cacheSets), ("cache_after", cacheJson w')]
  let model := match o.result with
    | .ok (b, src) => jobj ([("ok", jbool true), ("bundle", bundleIdJson b), ("source", jstr (if src == .cached then "cached" else "downloaded"))] ++ common)
    | .error e => jobj ([("ok", jbool false), ("err", jstr (errStr e))] ++ common)
  pure (jobj [("model", model), ("spec", specJson verdict)])

end DriverLib
