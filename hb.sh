#!/bin/sh
# dev helper: build harness and run one generator, print problem histogram
export GOFLAGS=-mod=mod GOPROXY=off GOSUMDB=off GOTOOLCHAIN=local
cd /verif/harness && go build -o /tmp/h . || exit 1
/tmp/h -prop "$1" -out /tmp/$1.json
python3 - "$1" <<'PY'
import json,collections,sys
s=json.load(open('/tmp/%s.json'%sys.argv[1]))
print(s['evaluations'],s['distinct_nontrivial'],dict(list(s['impl_outcomes'].items())[:12]))
cnt=collections.Counter()
for p in s['problems'] or []:
    cnt[(p['kind'],p.get('clause'),p['case']['class'])]+=1
for k,v in cnt.most_common(40): print(v,k)
PY
